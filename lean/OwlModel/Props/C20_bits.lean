import OwlModel.Props.C20
import OwlModel.Impl.Bits
import OwlModel.Lemmas.Shifts
namespace Owl.Props.C20
open Owl Owl.Impl Owl.Lemmas

/-! ### lowest set bit: `trailing_zeros`, `x & (x - 1)`, `x & -x` -/

/-- bits of `n - 1` when bit `t` is the lowest set bit of `n` -/
theorem nat_pred_testBit : ∀ (t n j : Nat), (∀ i, i < t → n.testBit i = false) → n.testBit t = true →
    (n - 1).testBit j = (if j < t then true else if j = t then false else n.testBit j) := by
  intro t
  induction t with
  | zero =>
    intro n j _ ht
    have hodd : n % 2 = 1 := by simpa [Nat.testBit_zero] using ht
    cases j with
    | zero => simp [Nat.testBit_zero]; omega
    | succ j =>
      simp only [Nat.testBit_succ]
      have : (n - 1) / 2 = n / 2 := by omega
      rw [this]; simp
  | succ t ih =>
    intro n j hlow ht
    have heven : n % 2 = 0 := by
      have := hlow 0 (by omega); simp [Nat.testBit_zero] at this; omega
    have hpos : n ≠ 0 := by intro e; subst e; simp at ht
    cases j with
    | zero => simp [Nat.testBit_zero]; omega
    | succ j =>
      have h2 : (n - 1) / 2 = n / 2 - 1 := by omega
      rw [Nat.testBit_succ, h2, ih (n / 2) j]
      · simp only [Nat.testBit_succ, Nat.add_lt_add_iff_right, Nat.add_right_cancel_iff]
      · intro i hi; rw [← Nat.testBit_succ]; exact hlow (i + 1) (by omega)
      · rw [← Nat.testBit_succ]; exact ht

theorem tz_spec (x : BB) (hx : x ≠ 0#64) :
    trailingZeros x < 64 ∧ x.getLsbD (trailingZeros x) = true ∧ ∀ j, j < trailingZeros x → x.getLsbD j = false := by
  unfold trailingZeros
  cases hf : (List.range 64).find? fun i => x.getLsbD i with
  | none =>
    exfalso; apply hx
    rw [List.find?_range_eq_none] at hf
    apply BitVec.eq_of_getLsbD_eq
    intro i hi
    have := hf i hi
    simpa using this
  | some i =>
    rw [List.find?_range_eq_some] at hf
    obtain ⟨h1, h2, h3⟩ := hf
    simp only [Option.getD_some]
    refine ⟨by simpa using h2, h1, ?_⟩
    intro j hj; simpa using h3 j hj

theorem toNat_sub_one (x : BB) (hx : x ≠ 0#64) : (x - 1#64).toNat = x.toNat - 1 := by
  have hpos : x.toNat ≠ 0 := by
    intro e; apply hx; apply BitVec.eq_of_toNat_eq; simpa using e
  have hlt := x.isLt
  rw [BitVec.toNat_sub]
  simp only [BitVec.toNat_ofNat]
  omega

/-- bits of `x - 1` relative to the lowest set bit of `x` -/
theorem getLsbD_sub_one (x : BB) (hx : x ≠ 0#64) (j : Nat) :
    (x - 1#64).getLsbD j =
      (if j < trailingZeros x then true else if j = trailingZeros x then false else x.getLsbD j) := by
  obtain ⟨_, h2, h3⟩ := tz_spec x hx
  unfold BitVec.getLsbD at h2 h3 ⊢
  rw [toNat_sub_one x hx]
  exact nat_pred_testBit _ _ j h3 h2

/-- `x & (x - 1)` removes exactly the lowest member -/
theorem clearLowest_getLsbD (x : BB) (hx : x ≠ 0#64) (j : Nat) :
    (x &&& (x - 1#64)).getLsbD j = (x.getLsbD j && decide (j ≠ trailingZeros x)) := by
  obtain ⟨_, h2, h3⟩ := tz_spec x hx
  rw [BitVec.getLsbD_and, getLsbD_sub_one x hx]
  by_cases h : j < trailingZeros x
  · simp [h, h3 j h]
  · by_cases e : j = trailingZeros x
    · simp [e]
    · simp [h, e]

/-! ### iteration -/

theorem sorted_ext : ∀ (l₁ l₂ : List Sq), l₁.Pairwise (· < ·) → l₂.Pairwise (· < ·) →
    (∀ s, s ∈ l₁ ↔ s ∈ l₂) → l₁ = l₂
  | [], [], _, _, _ => rfl
  | [], b :: l, _, _, h => by have := (h b).2 List.mem_cons_self; simp at this
  | a :: l, [], _, _, h => by have := (h a).1 List.mem_cons_self; simp at this
  | a :: l₁, b :: l₂, h₁, h₂, h => by
    rw [List.pairwise_cons] at h₁ h₂
    have ab : a = b := by
      have am := (h a).1 List.mem_cons_self
      have bm := (h b).2 List.mem_cons_self
      rw [List.mem_cons] at am bm
      rcases am with e | am
      · exact e
      · rcases bm with e | bm
        · exact e.symm
        · have q1 : a.val < b.val := h₁.1 b bm
          have q2 : b.val < a.val := h₂.1 a am
          omega
    subst ab
    have := sorted_ext l₁ l₂ h₁.2 h₂.2 (by
      intro s
      constructor
      · intro hs
        have lt := h₁.1 s hs
        have := (h s).1 (List.mem_cons_of_mem _ hs)
        rw [List.mem_cons] at this
        rcases this with e | m
        · subst e; exact absurd lt (Nat.lt_irrefl _)
        · exact m
      · intro hs
        have lt := h₂.1 s hs
        have := (h s).2 (List.mem_cons_of_mem _ hs)
        rw [List.mem_cons] at this
        rcases this with e | m
        · subst e; exact absurd lt (Nat.lt_irrefl _)
        · exact m)
    rw [this]

theorem clearLowest_has (x : BB) (hx : x ≠ 0#64) (s : Sq) :
    (x &&& (x - 1#64)).has s = (x.has s && decide (s.val ≠ trailingZeros x)) :=
  clearLowest_getLsbD x hx s.val

/-- no member of `x` lies below `trailingZeros x` -/
theorem tz_le_of_has (x : BB) (hx : x ≠ 0#64) (s : Sq) (hs : x.has s = true) : trailingZeros x ≤ s.val := by
  obtain ⟨_, _, h3⟩ := tz_spec x hx
  apply Nat.le_of_not_lt
  intro hlt
  have := h3 s.val hlt
  unfold BB.has at hs
  rw [this] at hs; cases hs

theorem toList_step (x : BB) (hx : x ≠ 0#64) (h : trailingZeros x < 64) :
    x.toList = (⟨trailingZeros x, h⟩ : Sq) :: (x &&& (x - 1#64)).toList := by
  obtain ⟨_, h2, _⟩ := tz_spec x hx
  apply sorted_ext
  · exact bb_iter_ascending x
  · rw [List.pairwise_cons]
    refine ⟨?_, bb_iter_ascending _⟩
    intro s hs
    rw [BB.mem_toList, clearLowest_has x hx] at hs
    simp only [Bool.and_eq_true, decide_eq_true_eq] at hs
    have := tz_le_of_has x hx s hs.1
    show trailingZeros x < s.val
    omega
  · intro s
    rw [List.mem_cons, BB.mem_toList, BB.mem_toList, clearLowest_has x hx]
    simp only [Bool.and_eq_true, decide_eq_true_eq]
    constructor
    · intro hs
      by_cases e : s.val = trailingZeros x
      · left; exact Fin.ext e
      · right; exact ⟨hs, e⟩
    · rintro (e | ⟨hs, _⟩)
      · subst e; exact h2
      · exact hs

theorem toList_zero : BB.toList (0#64) = [] := by
  unfold BB.toList
  rw [List.filter_eq_nil_iff]
  intro s _; simp

theorem bbIterLoop_eq : ∀ (fuel : Nat) (x : BB), (∀ s : Sq, x.has s = true → 64 - fuel ≤ s.val) →
    bbIterLoop fuel x = x.toList := by
  intro fuel
  induction fuel with
  | zero =>
    intro x hinv
    have : x = 0#64 := by
      apply BB.ext_has; intro s
      rw [BB.has_zero]
      cases hs : x.has s with
      | false => rfl
      | true => have := hinv s hs; have := s.isLt; omega
    subst this
    simp [bbIterLoop, toList_zero]
  | succ fuel ih =>
    intro x hinv
    unfold bbIterLoop
    by_cases hx : x = 0#64
    · subst hx; simp [toList_zero]
    · obtain ⟨h1, hm, _⟩ := tz_spec x hx
      have q0 := hinv ⟨trailingZeros x, h1⟩ hm
      simp only [if_neg hx, dif_pos h1, List.singleton_append]
      rw [toList_step x hx h1, ih]
      intro s hs
      rw [clearLowest_has x hx] at hs
      simp only [Bool.and_eq_true, decide_eq_true_eq] at hs
      have q1 := tz_le_of_has x hx s hs.1
      have q2 := hinv s hs.1
      simp only at q0; omega

/-- the iterator yields exactly the members, each once, in increasing square order -/
theorem bbIter_eq (b : BB) : bbIter b = b.toList :=
  bbIterLoop_eq 64 b (by intro s _; omega)

theorem bbIter_mem (b : BB) (s : Sq) : s ∈ bbIter b ↔ b.has s = true := by
  rw [bbIter_eq]; exact BB.mem_toList b s
theorem bbIter_ascending (b : BB) : (bbIter b).Pairwise (· < ·) := by
  rw [bbIter_eq]; exact bb_iter_ascending b
theorem bbIter_nodup (b : BB) : (bbIter b).Nodup := by
  rw [bbIter_eq]; unfold BB.toList Sq.all
  exact List.Pairwise.filter _ (List.nodup_finRange 64)

/-! ### population count -/

theorem map_val_finRange (n : Nat) : (List.finRange n).map Fin.val = List.range n := by
  apply List.ext_getElem
  · simp
  · intro i h1 h2; simp

theorem popCount_eq (b : BB) : popCount b = b.len := by
  unfold popCount BB.len BB.toList Sq.all
  rw [← map_val_finRange 64, List.filter_map, List.length_map]
  rfl

theorem bbIter_length (b : BB) : (bbIter b).length = b.len := by
  rw [bbIter_eq]; rfl

theorem bbIter_length_popCount (b : BB) : (bbIter b).length = popCount b := by
  rw [bbIter_length, popCount_eq]

/-! ### flips -/

theorem getLsbD_foldl_or {α : Type} (f : α → BB) (l : List α) (acc : BB) (j : Nat) :
    (l.foldl (fun acc i => acc ||| f i) acc).getLsbD j
      = (acc.getLsbD j || l.any fun i => (f i).getLsbD j) := by
  induction l generalizing acc with
  | nil => simp
  | cons a l ih => simp only [List.foldl_cons, ih, BitVec.getLsbD_or, List.any_cons, Bool.or_assoc]

theorem getLsbD_foldl_or_if {α : Type} (p : α → Bool) (f : α → BB) (l : List α) (acc : BB) (j : Nat) :
    (l.foldl (fun acc i => if p i = true then acc ||| f i else acc) acc).getLsbD j
      = (acc.getLsbD j || l.any fun i => p i && (f i).getLsbD j) := by
  induction l generalizing acc with
  | nil => simp
  | cons a l ih =>
    simp only [List.foldl_cons, ih, List.any_cons]
    cases p a <;> simp [BitVec.getLsbD_or, Bool.or_assoc]

theorem getLsbD_ff (k : Nat) : (0xff#64).getLsbD k = decide (k < 8) := by
  by_cases hk : k < 64
  · have key : ∀ k : Fin 64, (0xff#64).getLsbD k.val = decide (k.val < 8) := by decide
    exact key ⟨k, hk⟩
  · rw [BitVec.getLsbD_of_ge _ _ (by omega)]
    have : ¬ k < 8 := by omega
    simp [this]

/-- `swap_bytes`: bit `8r + f` comes from bit `8(7 - r) + f` -/
theorem swapBytes_getLsbD (b : BB) (j : Nat) (hj : j < 64) :
    (swapBytes b).getLsbD j = b.getLsbD (8 * (7 - j / 8) + j % 8) := by
  unfold swapBytes
  rw [getLsbD_foldl_or, Bool.eq_iff_iff]
  simp only [BitVec.getLsbD_zero, Bool.false_or, List.any_eq_true, List.mem_range,
    BitVec.getLsbD_shiftLeft, BitVec.getLsbD_and, BitVec.getLsbD_ushiftRight, getLsbD_ff,
    Bool.and_eq_true, decide_eq_true_eq, Bool.not_eq_true', decide_eq_false_iff_not]
  constructor
  · rintro ⟨i, hi, ⟨_, h1⟩, h2, h3⟩
    have : 8 * i + (j - 8 * (7 - i)) = 8 * (7 - j / 8) + j % 8 := by omega
    rw [← this]; exact h2
  · intro h
    refine ⟨7 - j / 8, by omega, ⟨hj, by omega⟩, ?_, by omega⟩
    have : 8 * (7 - j / 8) + (j - 8 * (7 - (7 - j / 8))) = 8 * (7 - j / 8) + j % 8 := by omega
    rw [this]; exact h

/-- `reverse_bits`: bit `j` comes from bit `63 - j` -/
theorem reverseBits_getLsbD (b : BB) (j : Nat) (hj : j < 64) :
    (reverseBits b).getLsbD j = b.getLsbD (63 - j) := by
  unfold reverseBits
  rw [getLsbD_foldl_or_if, Bool.eq_iff_iff]
  simp only [BitVec.getLsbD_zero, Bool.false_or, List.any_eq_true, List.mem_range,
    BitVec.getLsbD_shiftLeft, BitVec.getLsbD_one,
    Bool.and_eq_true, decide_eq_true_eq, Bool.not_eq_true', decide_eq_false_iff_not]
  constructor
  · rintro ⟨i, hi, h1, ⟨_, h2⟩, _, h3⟩
    have : 63 - j = i := by omega
    rw [this]; exact h1
  · intro h
    exact ⟨63 - j, by omega, h, ⟨hj, by omega⟩, by omega, by omega⟩

theorem flipRank_val : ∀ s : Sq, s.flipRank.val = 8 * (7 - s.val / 8) + s.val % 8 := by decide
theorem flipFile_val : ∀ s : Sq, s.flipFile.val = 63 - (8 * (7 - s.val / 8) + s.val % 8) := by decide

/-- `flipped_rank` is the image under the rank flip -/
theorem flippedRank_has (b : BB) (s : Sq) : (flippedRank b).has s = b.has s.flipRank := by
  unfold flippedRank BB.has
  rw [swapBytes_getLsbD b s.val s.isLt, flipRank_val]

/-- `flipped_file` is the image under the file flip -/
theorem flippedFile_has (b : BB) (s : Sq) : (flippedFile b).has s = b.has s.flipFile := by
  unfold flippedFile BB.has
  rw [swapBytes_getLsbD _ s.val s.isLt, reverseBits_getLsbD _ _ (by have := s.isLt; omega), flipFile_val]

/-! ### deposit (software PDEP) -/

/-- number of members of `mask` strictly below `s`: the position of `s` among the members -/
def rankIn (mask : BB) (s : Sq) : Nat :=
  (Sq.all.filter fun t => mask.has t && decide (t.val < s.val)).length

/-- `x & -x` is the singleton of the lowest member -/
theorem isolateLowest_has (x : BB) (hx : x ≠ 0#64) (s : Sq) :
    (x &&& (0#64 - x)).has s = decide (s.val = trailingZeros x) := by
  obtain ⟨_, h2, h3⟩ := tz_spec x hx
  rw [BitVec.zero_sub, BitVec.neg_eq_not_add, ← BitVec.not_sub_one_eq_not_add_one]
  unfold BB.has
  rw [BitVec.getLsbD_and, BitVec.getLsbD_not, getLsbD_sub_one x hx]
  have hs := s.isLt
  by_cases h : s.val < trailingZeros x
  · have : s.val ≠ trailingZeros x := by omega
    simp [h, this]
  · by_cases e : s.val = trailingZeros x
    · simp [e, h2]; omega
    · simp [h, e, hs]

theorem and_one_ne_zero (x : BB) : (x &&& 1#64 ≠ 0#64) ↔ x.getLsbD 0 = true := by
  constructor
  · intro h
    cases hb : x.getLsbD 0 with
    | true => rfl
    | false =>
      exfalso; apply h
      apply BitVec.eq_of_getLsbD_eq
      intro i hi
      rw [BitVec.getLsbD_and, BitVec.getLsbD_one]
      by_cases e : i = 0
      · subst e; rw [hb]; simp
      · simp [e]
  · intro hb h
    have : (x &&& 1#64).getLsbD 0 = (0#64).getLsbD 0 := by rw [h]
    rw [BitVec.getLsbD_and, hb] at this
    simp at this

theorem length_filter_remove (p : Sq → Bool) (a : Sq) : ∀ l : List Sq, l.Nodup →
    (l.filter p).length
      = (l.filter fun t => p t && decide (t ≠ a)).length + (if a ∈ l ∧ p a = true then 1 else 0) := by
  intro l
  induction l with
  | nil => simp
  | cons y ys ih =>
    intro hn
    rw [List.nodup_cons] at hn
    have ih := ih hn.2
    by_cases e : y = a
    · subst e
      have hy : ¬ y ∈ ys := hn.1
      simp only [hy, false_and, if_false, Nat.add_zero] at ih
      cases hp : p y <;> simp [hp, ih]
    · have e' : ¬ a = y := fun h => e h.symm
      cases hp : p y <;> simp [hp, ih, e, e'] <;> omega

theorem rankIn_step (msk : BB) (hm : msk ≠ 0#64) (s : Sq) :
    rankIn msk s = (if trailingZeros msk < s.val then 1 else 0)
      + rankIn (msk ^^^ (msk &&& (0#64 - msk))) s := by
  obtain ⟨h1, h2, _⟩ := tz_spec msk hm
  unfold rankIn
  rw [length_filter_remove _ ⟨trailingZeros msk, h1⟩ Sq.all (List.nodup_finRange 64)]
  have hmem : (⟨trailingZeros msk, h1⟩ : Sq) ∈ Sq.all := List.mem_finRange _
  have hhas : msk.has ⟨trailingZeros msk, h1⟩ = true := h2
  simp only [hmem, true_and, hhas, Bool.true_and, decide_eq_true_eq]
  rw [Nat.add_comm]
  congr 2
  apply List.filter_congr
  intro t _
  rw [BB.has_xor, isolateLowest_has msk hm]
  by_cases e : t.val = trailingZeros msk
  · have : t = ⟨trailingZeros msk, h1⟩ := Fin.ext e
    subst this; simp [hhas]
  · have : t ≠ ⟨trailingZeros msk, h1⟩ := fun h => e (congrArg Fin.val h)
    simp [e, this]

theorem rankIn_tz (msk : BB) (hm : msk ≠ 0#64) (h1 : trailingZeros msk < 64) :
    rankIn msk ⟨trailingZeros msk, h1⟩ = 0 := by
  unfold rankIn
  rw [List.length_eq_zero_iff, List.filter_eq_nil_iff]
  intro t _
  cases ht : msk.has t with
  | false => simp
  | true =>
    have := tz_le_of_has msk hm t ht
    have : ¬ t.val < trailingZeros msk := by omega
    simp [this]

theorem rankIn_lt (mask : BB) (s : Sq) : rankIn mask s < 64 := by
  unfold rankIn
  have h := length_filter_remove
    (fun t => (mask.has t && decide (t.val < s.val)) || decide (t = s)) s Sq.all (List.nodup_finRange 64)
  have hmem : s ∈ Sq.all := List.mem_finRange _
  simp only [hmem, true_and, decide_true, Bool.or_true, if_true] at h
  have hc : (Sq.all.filter fun t => ((mask.has t && decide (t.val < s.val)) || decide (t = s)) && decide (t ≠ s))
      = Sq.all.filter fun t => mask.has t && decide (t.val < s.val) := by
    apply List.filter_congr
    intro t _
    by_cases e : t = s
    · subst e; simp
    · simp [e]
  rw [hc] at h
  have hle := List.length_filter_le
    (fun t => (mask.has t && decide (t.val < s.val)) || decide (t = s)) Sq.all
  have : Sq.all.length = 64 := List.length_finRange
  omega

theorem depositLoop_has : ∀ (fuel : Nat) (msk x res : BB),
    (∀ s : Sq, msk.has s = true → 64 - fuel ≤ s.val) → ∀ s : Sq,
    (depositLoop fuel msk x res).has s
      = (res.has s || (msk.has s && x.getLsbD (rankIn msk s))) := by
  intro fuel
  induction fuel with
  | zero =>
    intro msk x res hinv s
    have : msk.has s = false := by
      cases hs : msk.has s with
      | false => rfl
      | true => have := hinv s hs; have := s.isLt; omega
    simp [depositLoop, this]
  | succ fuel ih =>
    intro msk x res hinv s
    unfold depositLoop
    by_cases hm : msk = 0#64
    · subst hm; simp
    · obtain ⟨h1, h2, _⟩ := tz_spec msk hm
      have q0 := hinv ⟨trailingZeros msk, h1⟩ h2
      simp only at q0
      simp only [if_neg hm]
      rw [ih]
      · have hres : (if x &&& 1#64 ≠ 0#64 then res ||| (msk &&& (0#64 - msk)) else res).has s
            = (res.has s || (x.getLsbD 0 && decide (s.val = trailingZeros msk))) := by
          by_cases hb : x.getLsbD 0 = true
          · rw [if_pos ((and_one_ne_zero x).2 hb), BB.has_or, isolateLowest_has msk hm, hb]; simp
          · have : ¬ (x &&& 1#64 ≠ 0#64) := fun h => hb ((and_one_ne_zero x).1 h)
            rw [if_neg this, Bool.eq_false_iff.2 hb]; simp
        rw [BB.has_xor, isolateLowest_has msk hm, BitVec.getLsbD_ushiftRight, hres]
        by_cases e : s.val = trailingZeros msk
        · have se : s = ⟨trailingZeros msk, h1⟩ := Fin.ext e
          have hs : msk.has s = true := by unfold BB.has; rw [e]; exact h2
          have hr : rankIn msk s = 0 := by rw [se]; exact rankIn_tz msk hm h1
          rw [hr]
          generalize x.getLsbD 0 = b0
          simp [e, hs]
        · rw [rankIn_step msk hm s]
          generalize x.getLsbD 0 = b0
          by_cases hs : msk.has s = true
          · have q1 := tz_le_of_has msk hm s hs
            have : trailingZeros msk < s.val := by omega
            simp [e, hs, this]
          · simp [e, hs]
      · intro t ht
        rw [BB.has_xor, isolateLowest_has msk hm] at ht
        by_cases e : t.val = trailingZeros msk
        · have hs : msk.has t = true := by unfold BB.has; rw [e]; exact h2
          simp [e, hs] at ht
        · simp [e] at ht
          have q1 := tz_le_of_has msk hm t ht
          omega

/-- the `i`-th lowest bit of `x` lands on the `i`-th lowest member of `mask`; nothing else is set -/
theorem depositBits_has (mask x : BB) (s : Sq) :
    (depositBits mask x).has s = (mask.has s && x.getLsbD (rankIn mask s)) := by
  unfold depositBits
  rw [depositLoop_has 64 mask x 0#64 (by intro s _; omega) s]
  simp

theorem depositBits_subset (mask x : BB) : depositBits mask x &&& ~~~ mask = 0#64 := by
  apply BB.ext_has; intro s
  rw [BB.has_and, BB.has_not, depositBits_has]
  cases mask.has s <;> simp

theorem depositBits_allOnes (mask : BB) : depositBits mask (BitVec.allOnes 64) = mask := by
  apply BB.ext_has; intro s
  rw [depositBits_has, BitVec.getLsbD_allOnes]
  simp [rankIn_lt mask s]

theorem depositBits_zero (mask : BB) : depositBits mask 0#64 = 0#64 := by
  apply BB.ext_has; intro s
  rw [depositBits_has]; simp

/-- in an ascending list, exactly `i` entries lie below the `i`-th entry -/
theorem sorted_rank : ∀ (l : List Sq), l.Pairwise (· < ·) → ∀ (i : Nat) (h : i < l.length),
    (l.filter fun t => decide (t.val < (l[i]).val)).length = i
  | [], _, i, h => by simp at h
  | a :: l, hp, 0, _ => by
    rw [List.pairwise_cons] at hp
    rw [List.length_eq_zero_iff, List.filter_eq_nil_iff]
    intro t ht
    rw [List.mem_cons] at ht
    simp only [List.getElem_cons_zero, decide_eq_true_eq]
    rcases ht with e | ht
    · subst e; exact Nat.lt_irrefl _
    · have : a.val < t.val := hp.1 t ht
      omega
  | a :: l, hp, i + 1, h => by
    rw [List.pairwise_cons] at hp
    have hi : i < l.length := by simpa using h
    have lt : a.val < (l[i]).val := hp.1 _ (List.getElem_mem hi)
    simp only [List.getElem_cons_succ, List.filter_cons, lt, decide_true, if_true, List.length_cons]
    rw [sorted_rank l hp.2 i hi]

theorem rankIn_nth (mask : BB) (i : Nat) (h : i < mask.toList.length) :
    rankIn mask (mask.toList[i]) = i := by
  have := sorted_rank mask.toList (bb_iter_ascending mask) i h
  unfold rankIn
  refine Eq.trans ?_ this
  generalize mask.toList[i] = s
  unfold BB.toList
  rw [List.filter_filter]
  congr 1
  apply List.filter_congr
  intro t _
  exact Bool.and_comm _ _

/-- PDEP, positional form: bit `i` of `x` is written to the `i`-th lowest member of `mask` -/
theorem depositBits_nth (mask x : BB) (i : Nat) (h : i < mask.toList.length) :
    (depositBits mask x).has (mask.toList[i]) = x.getLsbD i := by
  rw [depositBits_has, rankIn_nth mask i h]
  have : mask.has (mask.toList[i]) = true := (BB.mem_toList mask _).1 (List.getElem_mem h)
  rw [this]; rfl

/-- bits of `x` at or above the population count of `mask` are ignored -/
theorem rankIn_lt_len (mask : BB) (s : Sq) (hs : mask.has s = true) : rankIn mask s < mask.len := by
  have hmem : s ∈ mask.toList := (BB.mem_toList mask s).2 hs
  obtain ⟨i, hi, e⟩ := List.getElem_of_mem hmem
  rw [← e, rankIn_nth mask i hi]
  exact hi

/-! ### flips are involutions and preserve size of the index space -/

theorem flipRank_flipRank : ∀ s : Sq, s.flipRank.flipRank = s := by decide
theorem flipFile_flipFile : ∀ s : Sq, s.flipFile.flipFile = s := by decide

theorem flippedRank_flippedRank (b : BB) : flippedRank (flippedRank b) = b := by
  apply BB.ext_has; intro s
  rw [flippedRank_has, flippedRank_has, flipRank_flipRank]

theorem flippedFile_flippedFile (b : BB) : flippedFile (flippedFile b) = b := by
  apply BB.ext_has; intro s
  rw [flippedFile_has, flippedFile_has, flipFile_flipFile]

/-! non-vacuity: concrete runs of the modelled loops -/
example : bbIter 0x8100000000000081#64 = [⟨0, by decide⟩, ⟨7, by decide⟩, ⟨56, by decide⟩, ⟨63, by decide⟩] := by
  decide +kernel
example : popCount 0x8100000000000081#64 = 4 := by decide +kernel
example : flippedRank 0x00000000000000ff#64 = 0xff00000000000000#64 := by decide +kernel
example : flippedFile 0x0101010101010101#64 = 0x8080808080808080#64 := by decide +kernel
example : depositBits 0x00000000000000f0#64 0x5#64 = 0x50#64 := by decide +kernel
example : depositBits 0x8100000000000081#64 0xa#64 = 0x8000000000000080#64 := by decide +kernel

end Owl.Props.C20
