import OwlModel.Lemmas.SanOutput
import OwlModel.Props.C12
namespace Owl.Props.C09
open Owl Owl.Impl Owl.Lemmas Owl.Props

/-! ## 1. reparse clause of C12 for SAN: every parsed SAN value prints and reads back to itself -/

/-- what `san::Data::from_str` can really produce: the printable data plus the UCI form with a UCI-shaped move.
(`SanData.ParserShape` of `Lemmas/Total` only records "never a `Simple` record for a pawn"; it says nothing on the
promotion piece, so it is too weak for the reparse statement — see `parserShape_not_enough`.) -/
def Parsed : SanData → Prop
  | .uci u => C12.UciShape u
  | .castling _ => True
  | .pawnMove _ p => PromoPiece p
  | .pawnCapture _ _ p => PromoPiece p
  | .pawnCaptureShort _ _ p => PromoPiece p
  | .simple piece _ _ _ _ => piece ≠ .pawn

theorem parsed_of_printable (d : SanData) (h : Printable d) : Parsed d := by
  cases d <;> first | exact absurd h id | exact h

theorem printable_of_parsed (d : SanData) (h : Parsed d) : (∃ u, d = .uci u ∧ C12.UciShape u) ∨ Printable d := by
  cases d with
  | uci u => exact Or.inl ⟨u, rfl, h⟩
  | _ => exact Or.inr h

theorem parserShape_of_parsed (d : SanData) (h : Parsed d) : d.ParserShape := by
  cases d <;> first | trivial | exact h


theorem promoteOfLetter_promo (b : Nat) (p : Piece) (h : promoteOfLetter b = some p) : PromoPiece (some p) := by
  unfold promoteOfLetter at h
  repeat' (split at h)
  all_goals first
    | (cases h; simp [PromoPiece]; done)
    | (cases h)

theorem stripPromote_promo (data : Bytes) : PromoPiece (stripPromote data).1 := by
  unfold stripPromote
  split
  · split
    · rename_i p hp
      exact promoteOfLetter_promo _ _ hp
    · exact Or.inl rfl
  · exact Or.inl rfl

theorem parseSanPiece_parsed (data : Bytes) (piece : Piece) (rest : Bytes) (d : SanData) (hp : piece ≠ .pawn)
    (h : parseSanPiece data piece rest = .ok d) : Parsed d := by
  unfold parseSanPiece at h
  dsimp only at h
  repeat' (split at h)
  all_goals first
    | (cases h; done)
    | (injection h with h; subst h; exact hp)

theorem parseSanPawn_parsed (data : Bytes) (promote : Option Piece) (bytes : Bytes) (d : SanData)
    (hp : PromoPiece promote) (h : parseSanPawn data promote bytes = .ok d) : Parsed d := by
  unfold parseSanPawn at h
  dsimp only at h
  repeat' (split at h)
  all_goals first
    | (cases h; done)
    | (injection h with h; subst h; exact hp)

/-- everything the SAN data parser returns is `Parsed` -/
theorem parseSanData_parsed (s : Bytes) (d : SanData) (h : parseSanData s = .ok d) : Parsed d := by
  unfold parseSanData at h
  split at h
  · injection h with h; subst h; trivial
  split at h
  · injection h with h; subst h; trivial
  split at h
  · cases h
  split at h
  · cases h
  · rename_i mv hu
    injection h with h; subst h
    exact C12.parseUci_shape _ _ hu
  · split at h
    · cases h
    · split at h
      · rename_i p hpl
        exact parseSanPiece_parsed _ _ _ _ (pieceOfLetter_ne_pawn _ _ hpl) h
      · exact parseSanPawn_parsed _ _ _ _ (stripPromote_promo _) h


/-- the UCI form: `fmtUci u` is read back by `san::Data::from_str` as `Data::Uci u` (it is never a castling symbol,
never empty, and the UCI reader accepts it first) -/
theorem fileByte_not_castle (f : Fin 8) : fileByte f ≠ 79 ∧ fileByte f ≠ 48 := by revert f; decide

theorem parseSanData_of_uci (f : Fin 8) (rest : Bytes) (u : UciMove) (h : parseUci (fileByte f :: rest) = .ok u) :
    parseSanData (fileByte f :: rest) = .ok (.uci u) := by
  obtain ⟨h79, h48⟩ := fileByte_not_castle f
  unfold parseSanData
  simp only [List.cons.injEq, h48, h79, false_and, Bool.or_self, decide_false, Bool.false_eq_true, if_false,
    List.isEmpty_cons, h]

theorem uciData_reparse_move (src dst : Sq) (p : Option Piece)
    (hp : p = none ∨ p = some .knight ∨ p = some .bishop ∨ p = some .rook ∨ p = some .queen) :
    parseSanData (fmtUci (.move src dst p)) = .ok (.uci (.move src dst p)) := by
  have h := C12.uci_reparse_move src dst p hp
  obtain ⟨rest, e⟩ : ∃ rest, fmtUci (.move src dst p) = fileByte src.file :: rest := ⟨_, rfl⟩
  rw [e] at h ⊢
  exact parseSanData_of_uci _ _ _ h

theorem uci_last_move : ∀ (src dst : Sq) (p : Option Piece),
    (p = none ∨ p = some .knight ∨ p = some .bishop ∨ p = some .rook ∨ p = some .queen) →
    ∃ x, (fmtUci (.move src dst p)).getLast? = some x ∧ x ≠ 35 ∧ x ≠ 120 ∧ x ≠ 43 := by
  intro src dst p hp
  rcases hp with h | h | h | h | h <;> subst h
  · exact ⟨rankByte dst.rank, by simp [fmtUci, fmtCoord], rankByte_last _⟩
  · exact ⟨110, by simp [fmtUci, fmtCoord], by decide⟩
  · exact ⟨98, by simp [fmtUci, fmtCoord], by decide⟩
  · exact ⟨114, by simp [fmtUci, fmtCoord], by decide⟩
  · exact ⟨113, by simp [fmtUci, fmtCoord], by decide⟩

/-- C12 (reparse, SAN data): every datum the parser can return is written without failure, parses back to the same
datum, and its text does not end in a byte the check-mark reader would strip -/
theorem sanData_reparse_parsed (d : SanData) (hd : Parsed d) :
    ∃ t, fmtSanData d = .ok t ∧ parseSanData t = .ok d
      ∧ ∃ x, t.getLast? = some x ∧ x ≠ 35 ∧ x ≠ 120 ∧ x ≠ 43 := by
  rcases printable_of_parsed d hd with ⟨u, rfl, hu⟩ | hp
  · cases u with
    | null => exact ⟨_, rfl, by decide, 48, rfl, by decide⟩
    | move src dst p => exact ⟨_, rfl, uciData_reparse_move src dst p hu, uci_last_move src dst p hu⟩
  · exact sanData_reparse d hp

/-- the parser splits the text into a body and a check mark -/
theorem parseSan_split (s : Bytes) (m : SanMove) (h : parseSan s = .ok m) :
    ∃ body, parseSanData body = .ok m.data := by
  unfold parseSan at h
  dsimp only at h
  split at h
  · rename_i d hd
    injection h with h; subst h
    exact ⟨_, hd⟩
  · cases h
  · cases h

/-- C12 (reparse clause, SAN): for ANY byte string, if `san::Move::from_str` returns a value then `Display` of that
value does not fail and `from_str` of the text returns the same value (data and check mark) -/
theorem san_reparse (s : Bytes) (m : SanMove) (h : parseSan s = .ok m) :
    ∃ t, fmtSan m = .ok t ∧ parseSan t = .ok m := by
  obtain ⟨body, hb⟩ := parseSan_split s m h
  obtain ⟨d, chk⟩ := m
  obtain ⟨t, h1, h2, x, hx, a, b, c⟩ := sanData_reparse_parsed d (parseSanData_parsed body d hb)
  exact ⟨_, fmtSan_eq d chk t h1, parseSan_mark t d x hx a b c h2 chk⟩

/-- the same at the data level -/
theorem sanData_reparse_any (s : Bytes) (d : SanData) (h : parseSanData s = .ok d) :
    ∃ t, fmtSanData d = .ok t ∧ parseSanData t = .ok d :=
  let ⟨t, h1, h2, _⟩ := sanData_reparse_parsed d (parseSanData_parsed s d h)
  ⟨t, h1, h2⟩

/-- `ParserShape` alone is NOT enough: it allows a pawn move promoting to a king, whose text "e8=K" is not SAN -/
theorem parserShape_not_enough :
    (SanData.pawnMove 4 (some .king)).ParserShape
    ∧ fmtSanData (.pawnMove 4 (some .king)) = .ok [101, 56, 61, 75]
    ∧ parseSanData [101, 56, 61, 75] = .err (.invalidDst (.fileChar 61)) := by
  refine ⟨trivial, by decide, by decide⟩

/-- both castling spellings give the same datum, whose text is the `O` spelling -/
example : parseSan [48, 45, 48, 43, 43] = .ok ⟨.castling .king, some .double⟩
    ∧ fmtSan ⟨.castling .king, some .double⟩ = .ok [79, 45, 79, 43, 43]
    ∧ parseSan [79, 45, 79, 43, 43] = .ok ⟨.castling .king, some .double⟩ := by decide
/-- a king move with a superfluous hint and `:` as capture sign, old-style trailing `x` for mate -/
example : parseSan [75, 97, 49, 58, 98, 50, 120] = .ok ⟨.simple .king (some 0) (some 7) true 49, some .checkmate⟩
    ∧ fmtSan ⟨.simple .king (some 0) (some 7) true 49, some .checkmate⟩ = .ok [75, 97, 49, 120, 98, 50, 35]
    ∧ parseSan [75, 97, 49, 120, 98, 50, 35] = .ok ⟨.simple .king (some 0) (some 7) true 49, some .checkmate⟩ := by
  decide


/-- the UCI form with a check mark, and the files-only pawn capture with a promotion written without `=` -/
example : parseSan [101, 55, 101, 56, 113, 43] = .ok ⟨.uci (.move 12 4 (some .queen)), some .single⟩
    ∧ fmtSan ⟨.uci (.move 12 4 (some .queen)), some .single⟩ = .ok [101, 55, 101, 56, 113, 43] := by decide
example : parseSan [101, 100, 81] = .ok ⟨.pawnCaptureShort 4 3 (some .queen), none⟩
    ∧ fmtSan ⟨.pawnCaptureShort 4 3 (some .queen), none⟩ = .ok [101, 100, 61, 81]
    ∧ parseSan [101, 100, 61, 81] = .ok ⟨.pawnCaptureShort 4 3 (some .queen), none⟩ := by decide

/-! ## 2. the styled list's move texts (C17 / C09): `san`, `sanUtf8` (figurine), `uci` -/

theorem utf8Piece_eq (p : Piece) : utf8Piece p = Spec.pieceGlyph p := by cases p <;> rfl

/-- the promotion suffix of the figurine style: the glyph, no `=` -/
def figPromote : Option Piece → Bytes
  | none => []
  | some p => utf8Piece p

/-- the body (without check mark) of `Spec.San.writeWith true` -/
def specBodyFig (p : Spec.Pos) (m : Spec.Move) : Bytes :=
  match m.kind with
  | .castleK => [79, 45, 79]
  | .castleQ => [79, 45, 79, 45, 79]
  | _ =>
    if m.man.piece = .pawn then
      (if Spec.isCapture p m then [97 + Spec.file m.src, 120] else []) ++ Spec.sqText m.dst
        ++ (match m.kind.promote with | some pc => Spec.pieceGlyph pc | none => [])
    else
      Spec.pieceGlyph m.man.piece ++ specDis p m ++ (if Spec.isCapture p m then [120] else []) ++ Spec.sqText m.dst

/-- `Spec.San.writeWith true` = figurine body ++ check mark -/
theorem writeFig_eq (p : Spec.Pos) (m : Spec.Move) :
    Spec.San.writeWith true p m = specBodyFig p m ++ markBytes (markOf (Spec.apply p m)) := by
  have hmark : (if Spec.inCheck (Spec.apply p m) (Spec.apply p m).side = true then
      (if (Spec.legalMoves (Spec.apply p m)).isEmpty = true then [35] else [43]) else ([] : Bytes))
      = markBytes (markOf (Spec.apply p m)) := by
    unfold markOf markBytes
    cases Spec.inCheck (Spec.apply p m) (Spec.apply p m).side <;>
      cases (Spec.legalMoves (Spec.apply p m)).isEmpty <;> rfl
  unfold Spec.San.writeWith
  simp only [if_true, List.nil_append, hmark]
  congr 1


/-- figurine notation, pawn moves: destination, `x` with the origin file iff the move captures, the glyph of the
promotion piece (no `=`) iff it promotes -/
theorem pawn_body_fig (b : Board) (k : Kind) (s d : Sq)
    (hl : Legal b (mkMove b.r.side k .pawn s d)) :
    fmtSanDataUtf8 (pawnData (mkMove b.r.side k .pawn s d))
      = .ok (specBodyFig (abs b.r) ⟨k, ⟨b.r.side, .pawn⟩, s, d⟩) := by
  have hcap := pawn_isCapture b k s d hl
  obtain ⟨h0, hK, hQ⟩ := pawn_kinds b k s d hl
  have hprom : figPromote k.promote = (match k.promote with | some pc => Spec.pieceGlyph pc | none => []) := by
    cases k <;> rfl
  have hbody : specBodyFig (abs b.r) ⟨k, ⟨b.r.side, .pawn⟩, s, d⟩ =
      (if Spec.isCapture (abs b.r) ⟨k, ⟨b.r.side, .pawn⟩, s, d⟩ then [fileByte s.file, 120] else []) ++ fmtCoord d
        ++ figPromote k.promote := by
    rw [hprom]
    unfold specBodyFig
    cases k <;> first | exact absurd rfl hK | exact absurd rfl hQ | rfl
  have hfig : ∀ q : Option Piece, (match q with | some p => utf8Piece p | none => []) = figPromote q := by
    intro q; cases q <;> rfl
  rw [hbody, hcap]
  unfold pawnData
  by_cases hf : s.file = d.file
  · simp [mkMove, hf, fmtSanDataUtf8]; exact hfig _
  · simp [mkMove, hf, fmtSanDataUtf8]; exact hfig _

/-- figurine notation, piece moves: glyph, origin hint of the rules, `x` iff the destination is occupied, destination -/
theorem piece_body_fig (b : Board) (hv : Valid b) (piece : Piece) (hp : piece ≠ .pawn) (s dst : Sq)
    (hl : Legal b (mkMove b.r.side .simple piece s dst)) (cands : List Move)
    (hc : sanCandidates? b piece dst = some cands) :
    fmtSanDataUtf8 (.simple piece
      (hintFile (mkMove b.r.side .simple piece s dst)
        (cands.foldl (detectorPush (mkMove b.r.side .simple piece s dst)) {}))
      (hintRank (mkMove b.r.side .simple piece s dst)
        (cands.foldl (detectorPush (mkMove b.r.side .simple piece s dst)) {}))
      (b.get dst).isOcc dst) = .ok (specBodyFig (abs b.r) ⟨.simple, ⟨b.r.side, piece⟩, s, dst⟩) := by
  have hcap : Spec.isCapture (abs b.r) ⟨.simple, ⟨b.r.side, piece⟩, s, dst⟩ = (b.get dst).isOcc :=
    isCapture_get b _ (by simp) (by simp) (by simp) (by simp)
  have hb : specBodyFig (abs b.r) ⟨.simple, ⟨b.r.side, piece⟩, s, dst⟩ =
      utf8Piece piece ++ specDis (abs b.r) ⟨.simple, ⟨b.r.side, piece⟩, s, dst⟩
        ++ (if (b.get dst).isOcc then [120] else []) ++ fmtCoord dst := by
    unfold specBodyFig
    simp only [hp, if_false, hcap, utf8Piece_eq]
    rfl
  rw [hb, ← piece_dis b hv piece hp s dst hl cands hc]
  unfold fmtSanDataUtf8
  simp only [hp, if_false, List.append_assoc]
  generalize hintFile _ _ = F
  generalize hintRank _ _ = R
  cases F <;> cases R <;> rfl

/-- figurine notation (body): the data `from_move` writes for a legal move prints in the `Utf8Theme` as the rules'
figurine notation of that move (without the check mark) -/
theorem san_body_fig (b : Board) (hv : Valid b) (sm : Spec.Move) (hl : Legal b (concMove sm)) (d : SanData)
    (hd : sanDataFromMove (concMove sm) b = .ok d) : fmtSanDataUtf8 d = .ok (specBodyFig (abs b.r) sm) := by
  have hcol := sl_color b sm hl.2.1
  obtain ⟨k, ⟨c, piece⟩, s, dst⟩ := sm
  simp only at hcol
  subst hcol
  have hl' : Legal b (mkMove b.r.side k piece s dst) := hl
  have hd' : sanDataFromMove (mkMove b.r.side k piece s dst) b = .ok d := hd
  have hknull : k ≠ .null := (semilegal_base b _ hl'.2.1).1
  obtain ⟨_, color, piece', _, hpiece, hmatch, _⟩ := wf_facts _ hl'.1 hknull
  have hpp : piece' = piece := by
    have : (mkMove b.r.side k piece s dst).cell.piece = some piece := piece_mk _ _
    rw [this] at hpiece; exact (Option.some.inj hpiece).symm
  subst hpp
  have hmatch' : k.matchesPiece piece' = true := hmatch
  by_cases hp : piece' = .pawn
  · subst hp
    obtain ⟨h1, _, _⟩ := pawn_roundtrip b hv k s dst hl'
    rw [h1] at hd'; cases hd'
    exact pawn_body_fig b k s dst hl'
  · cases k with
    | null => exact absurd rfl hknull
    | simple =>
      obtain ⟨cands, hc, h1, _, _⟩ := piece_roundtrip b hv piece' hp s dst hl'
      rw [h1] at hd'; cases hd'
      exact piece_body_fig b hv piece' hp s dst hl' cands hc
    | castleK =>
      have := matches_king hmatch' (Or.inl rfl); subst this
      obtain ⟨h1, _, _⟩ := castle_roundtrip b .king s dst hl'
      have h1' : sanDataFromMove (mkMove b.r.side .castleK .king s dst) b = .ok (.castling .king) := h1
      rw [h1'] at hd'; cases hd'
      rfl
    | castleQ =>
      have := matches_king hmatch' (Or.inr rfl); subst this
      obtain ⟨h1, _, _⟩ := castle_roundtrip b .queen s dst hl'
      have h1' : sanDataFromMove (mkMove b.r.side .castleQ .king s dst) b = .ok (.castling .queen) := h1
      rw [h1'] at hd'; cases hd'
      rfl
    | double => exact absurd (matches_pawn hmatch' (Or.inl rfl)) hp
    | ep => exact absurd (matches_pawn hmatch' (Or.inr (Or.inl rfl))) hp
    | promN => exact absurd (matches_pawn hmatch' (Or.inr (Or.inr (Or.inl rfl)))) hp
    | promB => exact absurd (matches_pawn hmatch' (Or.inr (Or.inr (Or.inr (Or.inl rfl))))) hp
    | promR => exact absurd (matches_pawn hmatch' (Or.inr (Or.inr (Or.inr (Or.inr (Or.inl rfl)))))) hp
    | promQ => exact absurd (matches_pawn hmatch' (Or.inr (Or.inr (Or.inr (Or.inr (Or.inr rfl)))))) hp


/-- C17 / C09 (figurine style): for every valid position and legal move the `SanUtf8` styled text is produced
(the `.unwrap()` never panics) and it is the rules' figurine notation `Spec.San.writeWith true`: piece glyph instead of
the letter, no `=` before the promotion glyph, everything else as in `san_text_standard` -/
theorem styled_sanUtf8 (b : Board) (hv : Valid b) (sm : Spec.Move) (hl : Legal b (concMove sm)) :
    fmtStyledMove? (concMove sm) b .sanUtf8 = some (Spec.San.writeWith true (abs b.r) sm) := by
  obtain ⟨d, h1, _, _, _, _, h4⟩ := sanFromMove_spec b hv (concMove sm) hl
  have hmk : makeMoveChecked b (concMove sm) = .ok (makeMove b (concMove sm)).1 :=
    (C02.make_checked_iff b _ hv hl.1 _).mpr ⟨hl.2.1, hl.2.2, rfl⟩
  obtain ⟨_, _, _, sm', e1, e2⟩ := C02.make_checked_valid b _ hv hl.1 _ hmk
  rw [C01.absMove_conc] at e1; cases e1
  unfold fmtStyledMove?
  simp only [h4, san_body_fig b hv sm hl d h1]
  rw [writeFig_eq, e2]
  generalize markOf (Spec.apply (abs b.r) sm) = chk
  cases chk with
  | none => rfl
  | some c => cases c <;> rfl

/-- C17 / C09 (standard style): the `San` styled text is produced and is `Spec.San.write` -/
theorem styled_san (b : Board) (hv : Valid b) (sm : Spec.Move) (hl : Legal b (concMove sm)) :
    fmtStyledMove? (concMove sm) b .san = some (Spec.San.write (abs b.r) sm) := by
  obtain ⟨s, h1, h2⟩ := san_text_standard b hv sm hl
  unfold fmtStyledMove?
  simp only [h1, h2]

/-- C17 (coordinate style): no position needed -/
theorem styled_uci (mv : Move) (b : Board) : fmtStyledMove? mv b .uci = some (fmtUci (uciOfMove mv)) := rfl

/-- the three styles for an implementation move: the rules-level move is `absMove mv`, a member of the rules' legal
moves, and each styled text is produced (never `none`) -/
theorem styled_impl (b : Board) (hv : Valid b) (mv : Move) (hl : Legal b mv) :
    ∃ sm, absMove mv = some sm ∧ concMove sm = mv ∧ sm ∈ Spec.legalMoves (abs b.r)
      ∧ fmtStyledMove? mv b .sanUtf8 = some (Spec.San.writeWith true (abs b.r) sm)
      ∧ fmtStyledMove? mv b .san = some (Spec.San.write (abs b.r) sm)
      ∧ fmtStyledMove? mv b .uci = some (fmtUci (uciOfMove mv)) := by
  obtain ⟨sm, h1, h2, _⟩ := semilegal_abs b hv mv hl.1 hl.2.1
  subst h2
  exact ⟨sm, h1, rfl, (legal_iff_spec b hv sm).mpr hl, styled_sanUtf8 b hv sm hl, styled_san b hv sm hl, rfl⟩

/-- every style, every legal move: the styled text exists -/
theorem styled_total (b : Board) (hv : Valid b) (mv : Move) (hl : Legal b mv) (style : MoveStyle) :
    ∃ t, fmtStyledMove? mv b style = some t := by
  obtain ⟨sm, _, _, _, h1, h2, h3⟩ := styled_impl b hv mv hl
  cases style
  · exact ⟨_, h2⟩
  · exact ⟨_, h1⟩
  · exact ⟨_, h3⟩

/-- the figurine text and the letter text of a legal move carry the same check mark and differ only in the body -/
theorem styled_fig_vs_san (b : Board) (hv : Valid b) (sm : Spec.Move) (hl : Legal b (concMove sm)) :
    ∃ mark, fmtStyledMove? (concMove sm) b .sanUtf8 = some (specBodyFig (abs b.r) sm ++ mark)
      ∧ fmtStyledMove? (concMove sm) b .san = some (specBody (abs b.r) sm ++ mark) := by
  refine ⟨markBytes (markOf (Spec.apply (abs b.r) sm)), ?_, ?_⟩
  · rw [styled_sanUtf8 b hv sm hl, writeFig_eq]
  · rw [styled_san b hv sm hl, write_eq]

/-! ### non-vacuity -/

/-- knights on a1 and c1 (`fenTwoKnights`): a1-b3 is written "♘ab3" -/
example : (match parseFenBoard fenTwoKnights with
    | .ok b => fmtStyledMove? ⟨.simple, 3, 56, 41⟩ b .sanUtf8
    | _ => none) = some [0xE2, 0x99, 0x98, 97, 98, 51] := by
  decide +kernel

/-- fool's mate: d8-h4 is written "♕h4#" -/
example : (match parseFenBoard fenFoolsMate with
    | .ok b => fmtStyledMove? ⟨.simple, 12, 3, 39⟩ b .sanUtf8
    | _ => none) = some [0xE2, 0x99, 0x95, 104, 52, 35] := by
  decide +kernel

end Owl.Props.C09
