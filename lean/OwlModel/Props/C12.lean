/-
C12  Every text parser is total: malformed input gives an error, never a panic.
The parsers are modelled on bytes with every Rust panic site (slice off a character boundary, `len - 2`
underflow, `unwrap`, `assert`, index out of range, `Coord::add`) as an explicit `Res.trap` result; the theorems say
`trap` is unreachable — for all byte strings, with no validity assumption on the bytes, and for the
position-dependent entry points in every board that has a king of each colour (every validated board).
-/
import OwlModel.Lemmas.Total
import OwlModel.Props.C11
import OwlModel.Props.C03

namespace Owl.Props.C12
open Owl Owl.Impl Owl.Lemmas

/-- FEN record → raw board -/
theorem fen_total (s : Bytes) (w : String) : parseFen s ≠ .trap w := parseFen_no_trap s w

/-- FEN record → validated board -/
theorem fen_board_total (s : Bytes) (w : String) : parseFenBoard s ≠ .trap w := by
  intro h
  unfold parseFenBoard at h
  split at h
  · exact parseFen_no_trap _ _ ‹_›
  · cases h
  · split at h
    · exact C11.validate_no_trap _ _ ‹_›
    · cases h
    · cases h

/-- UCI move text -/
theorem uci_total (s : Bytes) (w : String) : parseUci s ≠ .trap w := parseUci_no_trap s w

/-- SAN move text -/
theorem san_total (s : Bytes) (w : String) : parseSan s ≠ .trap w := parseSan_no_trap s w

/-- the four base-type parsers are total functions into `Except` (no panic result exists in their model):
every input gives a value or an error -/
theorem base_parsers_total (s : Bytes) :
    (∃ r, parseCoord s = r) ∧ (∃ r, parseCell s = r) ∧ (∃ r, parseColor s = r) ∧ (∃ r, parseRights s = r) :=
  ⟨⟨_, rfl⟩, ⟨_, rfl⟩, ⟨_, rfl⟩, ⟨_, rfl⟩⟩

/-- every board from the validation gate has a king of each colour -/
theorem validate_has_kings (raw : RawBoard) (b : Board) (hv : validate raw = .ok b) : HasKings b := by
  intro c
  obtain ⟨hvalid, habs, hcons⟩ := C11.validate_ok raw b hv
  obtain ⟨_, _, _, hkw, hkb, _, _⟩ := (C11.validRaw_iff (abs raw)).mp hvalid
  rw [kingPos_eq b hcons, habs]
  have hks : Spec.kingSqs (Spec.normalise (abs raw)) c = Spec.kingSqs (abs raw) c := C11.kingSqs_normalise _ _
  have hlen : (Spec.kingSqs (Spec.normalise (abs raw)) c).length ≠ 0 := by
    rw [hks]
    cases c
    · rw [hkw]; decide
    · rw [hkb]; decide
  obtain ⟨k, hk⟩ := kingSq_of_len _ _ hlen
  rw [hk]; rfl

/-- UCI text resolved against a position (all three readers) -/
theorem uci_in_position_total (raw : RawBoard) (b : Board) (hv : validate raw = .ok b) (s : Bytes) (w : String) :
    moveFromUci s b ≠ .trap w ∧ moveFromUciSemilegal s b ≠ .trap w ∧ moveFromUciLegal s b ≠ .trap w :=
  moveFromUci_no_trap b (validate_has_kings raw b hv) s w

/-- SAN text resolved against a position -/
theorem san_in_position_total (raw : RawBoard) (b : Board) (hv : validate raw = .ok b) (s : Bytes) (w : String) :
    moveFromSan s b ≠ .trap w :=
  moveFromSan_no_trap b (validate_has_kings raw b hv) s w

/-! ### whenever a value is returned, formatting it yields text that parses back to the same value -/

theorem coord_reparse (v : Sq) : parseCoord (fmtCoord v) = .ok v := by
  revert v; decide
theorem cell_reparse (v : Cell) : parseCell [cellByte v] = .ok v := by revert v; decide
theorem color_reparse (v : Color) : parseColor [colorByte v] = .ok v := by cases v <;> decide
theorem rights_reparse (v : Rights) : parseRights (fmtRights v) = .ok v := by revert v; decide

/-- the promotion pieces the UCI parser can produce -/
def UciShape : UciMove → Prop
  | .null => True
  | .move _ _ p => p = none ∨ p = some .knight ∨ p = some .bishop ∨ p = some .rook ∨ p = some .queen

theorem parseUci_shape (s : Bytes) (u : UciMove) (h : parseUci s = .ok u) : UciShape u := by
  unfold parseUci at h
  dsimp only at h
  repeat' (split at h)
  all_goals first
    | (cases h; done)
    | (injection h with h; subst h; simp [UciShape])

theorem uci_reparse_move : ∀ (src dst : Sq) (p : Option Piece),
    (p = none ∨ p = some .knight ∨ p = some .bishop ∨ p = some .rook ∨ p = some .queen) →
    parseUci (fmtUci (.move src dst p)) = .ok (.move src dst p) := by
  intro src dst p hp
  rcases hp with h | h | h | h | h <;> subst h <;> revert src dst <;> decide +kernel

theorem uci_reparse (s : Bytes) (u : UciMove) (h : parseUci s = .ok u) : parseUci (fmtUci u) = .ok u := by
  have hs := parseUci_shape s u h
  cases u with
  | null => decide
  | move src dst p => exact uci_reparse_move src dst p hs

/-! non-vacuity: inputs that used to panic now give errors in the model of the repaired code -/
example : parseUci [97, 0xC3, 0xA9, 52] = .err .badLength := by decide
example : parseSan [78] = .err (.invalidDst .badLength) := by decide
example : parseSan [0xE2, 0x82, 0xAC] = .err .syntax := by decide

end Owl.Props.C12
