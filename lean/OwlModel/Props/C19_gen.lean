/-
C19 (continued): the pawn generators' unchecked `dst - delta` square arithmetic stays on the board.
-/
import OwlModel.Props.C19
import OwlModel.Lemmas.Shifts

namespace Owl.Props.C19
open Owl Owl.Impl Owl.Lemmas

/-- the pawn generators compute the source square as `dst - delta` with unchecked arithmetic; for every destination
the shift sets can contain (`advanceForward_has`, `advanceLeft_has`, `advanceRight_has` give exactly these rank / file
conditions) that square is on the board -/
theorem gen_push_site (c : Color) : ∀ d : Sq, d.rank ≠ behindRank c → OnBoard d (-(forwardDelta c)) := by
  cases c <;> unfold OnBoard <;> decide
theorem gen_left_site (c : Color) : ∀ d : Sq, d.rank ≠ behindRank c → d.file ≠ 7 → OnBoard d (-(leftDelta c)) := by
  cases c <;> unfold OnBoard <;> decide
theorem gen_right_site (c : Color) : ∀ d : Sq, d.rank ≠ behindRank c → d.file ≠ 0 → OnBoard d (-(rightDelta c)) := by
  cases c <;> unfold OnBoard <;> decide
theorem gen_double_site (c : Color) : ∀ d : Sq, d.rank ≠ behindRank c → (addU d (-(forwardDelta c))).rank ≠ behindRank c →
    OnBoard d (-(2 * forwardDelta c)) := by
  cases c <;> unfold OnBoard <;> decide
/-- en-passant generator: the neighbours of the marked pawn that are read -/
theorem gen_ep_sites (c : Color) : ∀ p : Sq, p.rank = epSrcRank c →
    (p.file ≠ fileA → OnBoard p (-1)) ∧ (p.file ≠ fileH → OnBoard p 1) ∧ OnBoard p (forwardDelta c) := by
  cases c <;> unfold OnBoard <;> decide

end Owl.Props.C19
