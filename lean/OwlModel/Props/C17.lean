import OwlModel.Props.C13
namespace Owl.Props.C17
open Owl Owl.Impl Owl.Lemmas Owl.Props Owl.Props.C13

/-
C17  Walking and printing a chain reproduce the game.
All statements are relative to the chain invariant of C13 (`ChainInvH ch hs`: the stack is a legal game from the start,
`hs` = its positions).
* walker: `WalkerInv`, `walk_inv`, `setBoardPos_spec`, `next_spec`, `prev_spec`, `toStart_inv`, `toEnd_inv`, and for
  ANY list of steps `runSteps_spec` / `walk_spec`: no panic, the stack is untouched, every observation is
  (position preceding move i, move i) for exactly the indices the logical cursor (`cursorRun`) passes over.
* UCI list: `uciList_eq` (text = moves' UCI texts joined by single spaces), `split_join` + `fmtUci_good`
  (tokenisation), `makeUciStr_fmt` (single step), `uciList_replay` (replay from the start rebuilds start, stack, board;
  equal to the original up to the stored outcome, which the text does not carry).
* styled list: `styled_spec` (exact output: game order, numbering formula, status token; needs start.mn ≤ 65535),
  `styled_status` (status token, no hypotheses), `numTxt_fromBoard`, `numTxt_custom`, `pairs_moves`, `pairs_head`.
-/

/-! ## 1. positions of a game, indexed -/

/-- `hs` lists the positions of the legal game `st`: position `i+1` is `make` of move `i` on position `i`, the
stored undo record is the one `make` returned, every move is a legal step of a valid position -/
structure Steps (st : List (Move × RawUndo)) (hs : List Board) : Prop where
  len : hs.length = st.length + 1
  step : ∀ i, i < st.length → ∃ bi m u, hs[i]? = some bi ∧ st[i]? = some (m, u)
    ∧ hs[i+1]? = some (makeMove bi m).1 ∧ u = (makeMove bi m).2 ∧ LegalStep bi m ∧ Valid bi

theorem game_steps {b0 : Board} (h0 : Valid b0) : ∀ {st hs b}, Game b0 st hs b → Steps st hs := by
  intro st hs b h
  induction h with
  | nil => exact ⟨rfl, fun i hi => absurd hi (Nat.not_lt_zero _)⟩
  | @snoc st hs bp m hg hl ih =>
    have hlen := ih.len
    refine ⟨by simp [hlen], ?_⟩
    intro i hi
    simp only [List.length_append, List.length_singleton] at hi
    by_cases hlt : i < st.length
    · obtain ⟨bi, m', u', e1, e2, e3, e4, e5, e6⟩ := ih.step i hlt
      refine ⟨bi, m', u', ?_, ?_, ?_, e4, e5, e6⟩
      · rw [List.getElem?_append_left (by omega)]; exact e1
      · rw [List.getElem?_append_left hlt]; exact e2
      · rw [List.getElem?_append_left (by omega)]; exact e3
    · have hie : i = st.length := by omega
      subst hie
      have hlast : hs[st.length]? = some bp := by
        have := hg.last
        rw [List.getLast?_eq_getElem?, hlen] at this
        simpa using this
      refine ⟨bp, m, _, ?_, ?_, ?_, rfl, hl, hg.valid h0⟩
      · rw [List.getElem?_append_left (by omega)]; exact hlast
      · rw [List.getElem?_append_right (Nat.le_refl _)]; simp
      · rw [List.getElem?_append_right (by omega)]; simp [hlen]

theorem steps_of_inv {ch : Chain} {hs : List Board} (h : ChainInvH ch hs) : Steps ch.stack hs :=
  game_steps h.start h.game

/-! ## 2. the walker invariant -/

/-- the walker still holds the chain's stack, both cursors are in range, and its board is the position that
precedes move number `boardPos` -/
structure WalkerInv (st : List (Move × RawUndo)) (hs : List Board) (w : Walker) : Prop where
  stack : w.stack = st
  bpos : w.boardPos ≤ st.length
  pos : w.pos ≤ st.length
  board : hs[w.boardPos]? = some w.board

/-- `walk` establishes the invariant (cursor at the start, board cursor at the end, board = last position) -/
theorem walk_inv (ch : Chain) (hs : List Board) (h : ChainInvH ch hs) :
    WalkerInv ch.stack hs ch.walk ∧ ch.walk.pos = 0 ∧ ch.walk.boardPos = ch.stack.length := by
  refine ⟨⟨rfl, Nat.le_refl _, Nat.zero_le _, ?_⟩, rfl, rfl⟩
  show hs[ch.stack.length]? = some ch.board
  have := h.game.last
  rw [List.getLast?_eq_getElem?, h.game.len] at this
  simpa using this

/-! ## 3. `set_board_pos` -/

theorem down_spec {st : List (Move × RawUndo)} {hs : List Board} (hS : Steps st hs) (target : Nat) :
    ∀ (fuel : Nat) (w : Walker), WalkerInv st hs w → w.boardPos - target ≤ fuel →
      ∃ w', Walker.setBoardPos?.down target fuel w = some w' ∧ WalkerInv st hs w' ∧ w'.pos = w.pos
        ∧ w'.boardPos = min w.boardPos target := by
  intro fuel
  induction fuel with
  | zero =>
    intro w hw hf
    exact ⟨w, rfl, hw, rfl, by omega⟩
  | succ fuel ih =>
    intro w hw hf
    unfold Walker.setBoardPos?.down
    by_cases hgt : w.boardPos > target
    · rw [if_pos hgt]
      have hi : w.boardPos - 1 < st.length := by have := hw.bpos; omega
      obtain ⟨bi, m, u, e1, e2, e3, e4, e5, e6⟩ := hS.step (w.boardPos - 1) hi
      have hidx : w.boardPos - 1 + 1 = w.boardPos := by omega
      rw [hidx, hw.board] at e3
      have hb : w.board = (makeMove bi m).1 := Option.some.inj e3
      have e2' : w.stack[w.boardPos - 1]? = some (m, u) := by rw [hw.stack]; exact e2
      rw [e2']
      simp only
      have hun : unmakeMove w.board m u = bi := by
        rw [hb, e4]
        exact unmake_make bi m e6.shape.cons (makeOk_of_semilegal bi m e6.shape e5.wf e5.sl)
      rw [hun]
      obtain ⟨w', r1, r2, r3, r4⟩ := ih { w with boardPos := w.boardPos - 1, board := bi }
        ⟨hw.stack, by show w.boardPos - 1 ≤ st.length; omega, hw.pos, e1⟩
        (by show w.boardPos - 1 - target ≤ fuel; omega)
      refine ⟨w', r1, r2, r3, ?_⟩
      rw [r4]; show min (w.boardPos - 1) target = min w.boardPos target; omega
    · rw [if_neg hgt]
      exact ⟨w, rfl, hw, rfl, by omega⟩

theorem up_spec {st : List (Move × RawUndo)} {hs : List Board} (hS : Steps st hs) (target : Nat)
    (ht : target ≤ st.length) :
    ∀ (fuel : Nat) (w : Walker), WalkerInv st hs w → target - w.boardPos ≤ fuel →
      ∃ w', Walker.setBoardPos?.up target fuel w = some w' ∧ WalkerInv st hs w' ∧ w'.pos = w.pos
        ∧ w'.boardPos = max w.boardPos target := by
  intro fuel
  induction fuel with
  | zero =>
    intro w hw hf
    exact ⟨w, rfl, hw, rfl, by omega⟩
  | succ fuel ih =>
    intro w hw hf
    unfold Walker.setBoardPos?.up
    by_cases hlt : w.boardPos < target
    · rw [if_pos hlt]
      have hi : w.boardPos < st.length := by omega
      obtain ⟨bi, m, u, e1, e2, e3, e4, e5, e6⟩ := hS.step w.boardPos hi
      rw [hw.board] at e1
      have hb : w.board = bi := Option.some.inj e1
      have e2' : w.stack[w.boardPos]? = some (m, u) := by rw [hw.stack]; exact e2
      rw [e2']
      simp only
      obtain ⟨w', r1, r2, r3, r4⟩ := ih { w with boardPos := w.boardPos + 1, board := (makeMove w.board m).1 }
        ⟨hw.stack, by show w.boardPos + 1 ≤ st.length; omega, hw.pos, by rw [hb]; exact e3⟩
        (by show target - (w.boardPos + 1) ≤ fuel; omega)
      refine ⟨w', r1, r2, r3, ?_⟩
      rw [r4]; show max (w.boardPos + 1) target = max w.boardPos target; omega
    · rw [if_neg hlt]
      exact ⟨w, rfl, hw, rfl, by omega⟩

/-- `set_board_pos` with an in-range target cannot panic, keeps the invariant and the logical cursor, and lands
exactly on the target -/
theorem setBoardPos_spec {st : List (Move × RawUndo)} {hs : List Board} (hS : Steps st hs) (w : Walker)
    (hw : WalkerInv st hs w) (target : Nat) (ht : target ≤ st.length) :
    ∃ w', w.setBoardPos? target = some w' ∧ WalkerInv st hs w' ∧ w'.pos = w.pos ∧ w'.boardPos = target := by
  unfold Walker.setBoardPos?
  have hb := hw.bpos
  obtain ⟨w1, d1, d2, d3, d4⟩ := down_spec hS target (w.stack.length + 1) w hw (by rw [hw.stack]; omega)
  rw [d1]
  simp only
  obtain ⟨w2, u1, u2, u3, u4⟩ := up_spec hS target ht (w.stack.length + 1) w1 d2 (by rw [hw.stack]; omega)
  exact ⟨w2, u1, u2, u3.trans d3, by rw [u4, d4]; omega⟩

/-! ## 4. `next` / `prev` / `to_start` / `to_end` -/

/-- `Walker::next` cannot panic; at the end it returns no move and changes nothing; otherwise it returns move number
`pos` with the position that preceded it, and advances the cursor by one -/
theorem next_spec {st : List (Move × RawUndo)} {hs : List Board} (hS : Steps st hs) (w : Walker)
    (hw : WalkerInv st hs w) :
    (w.pos = st.length ∧ w.next? = some (w, none)) ∨
    (w.pos < st.length ∧ ∃ w' b mv u, w.next? = some (w', some (b, mv)) ∧ WalkerInv st hs w'
      ∧ w'.pos = w.pos + 1 ∧ st[w.pos]? = some (mv, u) ∧ hs[w.pos]? = some b) := by
  by_cases he : w.pos = st.length
  · left
    refine ⟨he, ?_⟩
    unfold Walker.next?
    rw [if_pos (by rw [hw.stack]; exact he)]
  · right
    have hp := hw.pos
    have hlt : w.pos < st.length := by omega
    refine ⟨hlt, ?_⟩
    unfold Walker.next?
    rw [if_neg (by rw [hw.stack]; exact he)]
    simp only
    have hw1 : WalkerInv st hs { w with pos := w.pos + 1 } := ⟨hw.stack, hw.bpos, by show w.pos + 1 ≤ _; omega, hw.board⟩
    obtain ⟨w', s1, s2, s3, s4⟩ := setBoardPos_spec hS { w with pos := w.pos + 1 } hw1 (w.pos + 1 - 1)
      (by omega)
    rw [s1]
    simp only
    have s3' : w'.pos = w.pos + 1 := s3
    have s4' : w'.boardPos = w.pos := by rw [s4]; omega
    obtain ⟨bi, m, u, e1, e2, _⟩ := hS.step w.pos hlt
    have e2' : w'.stack[w'.pos - 1]? = some (m, u) := by
      rw [s2.stack, s3']; simpa using e2
    rw [e2']
    simp only
    refine ⟨w', w'.board, m, u, rfl, s2, s3', e2, ?_⟩
    have := s2.board
    rw [s4'] at this
    exact this

/-- `Walker::prev` cannot panic; at the start it returns no move and changes nothing; otherwise it returns move number
`pos - 1` with the position that preceded it, and moves the cursor back by one -/
theorem prev_spec {st : List (Move × RawUndo)} {hs : List Board} (hS : Steps st hs) (w : Walker)
    (hw : WalkerInv st hs w) :
    (w.pos = 0 ∧ w.prev? = some (w, none)) ∨
    (0 < w.pos ∧ ∃ w' b mv u, w.prev? = some (w', some (b, mv)) ∧ WalkerInv st hs w'
      ∧ w'.pos = w.pos - 1 ∧ st[w.pos - 1]? = some (mv, u) ∧ hs[w.pos - 1]? = some b) := by
  by_cases he : w.pos = 0
  · left
    refine ⟨he, ?_⟩
    unfold Walker.prev?
    rw [if_pos he]
  · right
    have hp := hw.pos
    have hlt : w.pos - 1 < st.length := by omega
    refine ⟨by omega, ?_⟩
    unfold Walker.prev?
    rw [if_neg he]
    simp only
    have hw1 : WalkerInv st hs { w with pos := w.pos - 1 } := ⟨hw.stack, hw.bpos, by show w.pos - 1 ≤ _; omega, hw.board⟩
    obtain ⟨w', s1, s2, s3, s4⟩ := setBoardPos_spec hS { w with pos := w.pos - 1 } hw1 (w.pos - 1)
      (by omega)
    rw [s1]
    simp only
    have s3' : w'.pos = w.pos - 1 := s3
    obtain ⟨bi, m, u, e1, e2, _⟩ := hS.step (w.pos - 1) hlt
    have e2' : w'.stack[w'.pos]? = some (m, u) := by
      rw [s2.stack, s3']; exact e2
    rw [e2']
    simp only
    refine ⟨w', w'.board, m, u, rfl, s2, s3', e2, ?_⟩
    have := s2.board
    rw [s4] at this
    exact this

theorem toStart_inv {st : List (Move × RawUndo)} {hs : List Board} (w : Walker) (hw : WalkerInv st hs w) :
    WalkerInv st hs w.toStart ∧ w.toStart.pos = 0 :=
  ⟨⟨hw.stack, hw.bpos, Nat.zero_le _, hw.board⟩, rfl⟩

theorem toEnd_inv {st : List (Move × RawUndo)} {hs : List Board} (w : Walker) (hw : WalkerInv st hs w) :
    WalkerInv st hs w.toEnd ∧ w.toEnd.pos = st.length :=
  ⟨⟨hw.stack, hw.bpos, by show w.stack.length ≤ _; rw [hw.stack]; exact Nat.le_refl _, hw.board⟩,
   by show w.stack.length = _; rw [hw.stack]⟩

/-! ## 5. any interleaving of walker steps -/

inductive Step | next | prev | toStart | toEnd
  deriving DecidableEq, Repr

/-- one walker operation: the walker afterwards and what it returned; `none` = panic -/
def Step.run (w : Walker) : Step → Option (Walker × Option (Board × Move))
  | .next => w.next?
  | .prev => w.prev?
  | .toStart => some (w.toStart, none)
  | .toEnd => some (w.toEnd, none)

/-- run a list of walker operations, collecting every `(position, move)` the walker returned, in order -/
def runSteps : Walker → List Step → Option (Walker × List (Board × Move))
  | w, [] => some (w, [])
  | w, s :: rest =>
    match s.run w with
    | none => none
    | some (w', o) =>
      match runSteps w' rest with
      | none => none
      | some (w'', obs) => some (w'', (match o with | some x => [x] | none => []) ++ obs)

/-- the logical cursor: for a game of `n` moves and cursor `p`, the new cursor and the index of the move that the
operation passes over (if any) -/
def Step.cursor (n p : Nat) : Step → Nat × Option Nat
  | .next => if p = n then (p, none) else (p + 1, some p)
  | .prev => if p = 0 then (p, none) else (p - 1, some (p - 1))
  | .toStart => (0, none)
  | .toEnd => (n, none)

/-- the indices passed over by a list of operations, and the final cursor -/
def cursorRun (n : Nat) : Nat → List Step → Nat × List Nat
  | p, [] => (p, [])
  | p, s :: rest =>
    let r := s.cursor n p
    let r' := cursorRun n r.1 rest
    (r'.1, (match r.2 with | some i => [i] | none => []) ++ r'.2)

/-- pointwise relation of two lists of equal length (core has no `List.Forall₂`) -/
inductive Forall2 {α β : Type} (R : α → β → Prop) : List α → List β → Prop
  | nil : Forall2 R [] []
  | cons {a b as bs} : R a b → Forall2 R as bs → Forall2 R (a :: as) (b :: bs)

/-- observation `o` is (the position that preceded move `i`, move `i`) -/
def ObsAt (st : List (Move × RawUndo)) (hs : List Board) (o : Board × Move) (i : Nat) : Prop :=
  i < st.length ∧ hs[i]? = some o.1 ∧ (st[i]?).map (·.1) = some o.2

theorem step_spec {st : List (Move × RawUndo)} {hs : List Board} (hS : Steps st hs) (w : Walker)
    (hw : WalkerInv st hs w) (s : Step) :
    ∃ w' o, s.run w = some (w', o) ∧ WalkerInv st hs w' ∧ w'.pos = (s.cursor st.length w.pos).1
      ∧ (match o, (s.cursor st.length w.pos).2 with
         | none, none => True
         | some x, some i => ObsAt st hs x i
         | _, _ => False) := by
  cases s with
  | next =>
    rcases next_spec hS w hw with ⟨he, hn⟩ | ⟨hlt, w', b, mv, u, hn, hi, hp, e1, e2⟩
    · refine ⟨w, none, hn, hw, ?_, ?_⟩ <;> simp [Step.cursor, he]
    · have hne : ¬ w.pos = st.length := by omega
      refine ⟨w', some (b, mv), hn, hi, ?_, ?_⟩
      · simp [Step.cursor, hne, hp]
      · simp only [Step.cursor, hne, if_false]
        exact ⟨hlt, e2, by rw [e1]; rfl⟩
  | prev =>
    rcases prev_spec hS w hw with ⟨he, hn⟩ | ⟨hlt, w', b, mv, u, hn, hi, hp, e1, e2⟩
    · refine ⟨w, none, hn, hw, ?_, ?_⟩ <;> simp [Step.cursor, he]
    · have hne : ¬ w.pos = 0 := by omega
      have := hw.pos
      refine ⟨w', some (b, mv), hn, hi, ?_, ?_⟩
      · simp [Step.cursor, hne, hp]
      · simp only [Step.cursor, hne, if_false]
        exact ⟨by omega, e2, by rw [e1]; rfl⟩
  | toStart => exact ⟨w.toStart, none, rfl, (toStart_inv w hw).1, rfl, trivial⟩
  | toEnd => exact ⟨w.toEnd, none, rfl, (toEnd_inv w hw).1, (toEnd_inv w hw).2, trivial⟩

/-- C17 (walker): for ANY list of forward / backward / jump steps, starting from any walker state that satisfies the
invariant, no step panics, the walker keeps the chain's stack and stays in range, its cursor follows the logical
cursor, and the observations are, one for one and in order, (position preceding move `i`, move `i`) for exactly the
indices `i` the logical cursor passes over -/
theorem runSteps_spec {st : List (Move × RawUndo)} {hs : List Board} (hS : Steps st hs) (steps : List Step) :
    ∀ (w : Walker), WalkerInv st hs w →
      ∃ w' obs, runSteps w steps = some (w', obs) ∧ WalkerInv st hs w'
        ∧ w'.pos = (cursorRun st.length w.pos steps).1
        ∧ Forall2 (ObsAt st hs) obs (cursorRun st.length w.pos steps).2 := by
  induction steps with
  | nil => intro w hw; exact ⟨w, [], rfl, hw, rfl, Forall2.nil⟩
  | cons s rest ih =>
    intro w hw
    obtain ⟨w1, o, r1, i1, p1, o1⟩ := step_spec hS w hw s
    obtain ⟨w2, obs, r2, i2, p2, o2⟩ := ih w1 i1
    simp only [runSteps, r1, r2, cursorRun]
    refine ⟨w2, _, rfl, i2, by rw [p2, p1], ?_⟩
    rw [p1] at o2
    revert o1
    cases o <;> cases (s.cursor st.length w.pos).2 <;> simp only <;> intro o1
    · exact o2
    · exact o1.elim
    · exact o1.elim
    · exact Forall2.cons o1 o2

/-- C17 (walker), for a chain: walking a chain that satisfies the chain invariant -/
theorem walk_spec (ch : Chain) (hs : List Board) (h : ChainInvH ch hs) (steps : List Step) :
    ∃ w' obs, runSteps ch.walk steps = some (w', obs) ∧ w'.stack = ch.stack
      ∧ w'.pos = (cursorRun ch.stack.length 0 steps).1
      ∧ Forall2 (ObsAt ch.stack hs) obs (cursorRun ch.stack.length 0 steps).2 := by
  obtain ⟨hw, hp, _⟩ := walk_inv ch hs h
  obtain ⟨w', obs, r, i, p, o⟩ := runSteps_spec (steps_of_inv h) steps ch.walk hw
  rw [hp] at p o
  exact ⟨w', obs, r, i.stack, p, o⟩

/-! ## 6. the UCI list -/

/-- the text after the first token: every further token preceded by one space -/
def tailSp : List Bytes → Bytes
  | [] => []
  | t :: ts => 32 :: (t ++ tailSp ts)

/-- tokens separated by single spaces -/
def joinSp : List Bytes → Bytes
  | [] => []
  | t :: ts => t ++ tailSp ts

/-- a token the splitter returns unchanged: non-empty, no ASCII whitespace byte -/
def GoodTok (t : Bytes) : Prop := t ≠ [] ∧ ∀ x ∈ t, isAsciiWs x = false

def splitF (st : Bytes × List Bytes) (b : Nat) : Bytes × List Bytes :=
  if isAsciiWs b then (if st.1.isEmpty then st else ([], st.1.reverse :: st.2)) else (b :: st.1, st.2)

def splitFin (st : Bytes × List Bytes) : List Bytes :=
  (if st.1.isEmpty then st.2 else st.1.reverse :: st.2).reverse

theorem split_eq (s : Bytes) : splitAsciiWhitespace s = splitFin (s.foldl splitF ([], [])) := rfl

theorem fold_tok (t : Bytes) (ht : ∀ x ∈ t, isAsciiWs x = false) :
    ∀ (cur : Bytes) (acc : List Bytes), t.foldl splitF (cur, acc) = (t.reverse ++ cur, acc) := by
  induction t with
  | nil => intro cur acc; rfl
  | cons x t ih =>
    intro cur acc
    have hx : isAsciiWs x = false := ht x (List.mem_cons_self)
    rw [List.foldl_cons]
    have : splitF (cur, acc) x = (x :: cur, acc) := by simp [splitF, hx]
    rw [this, ih (fun y hy => ht y (List.mem_cons_of_mem _ hy))]
    simp

theorem fold_tail (ts : List Bytes) (hts : ∀ t ∈ ts, GoodTok t) :
    ∀ (cur : Bytes) (acc : List Bytes), cur ≠ [] →
      splitFin ((tailSp ts).foldl splitF (cur, acc)) = acc.reverse ++ cur.reverse :: ts := by
  induction ts with
  | nil =>
    intro cur acc hc
    simp [tailSp, splitFin, hc]
  | cons t ts ih =>
    intro cur acc hc
    obtain ⟨hne, hws⟩ := hts t (List.mem_cons_self)
    simp only [tailSp, List.foldl_cons, List.foldl_append]
    have h32 : splitF (cur, acc) 32 = ([], cur.reverse :: acc) := by
      simp [splitF, isAsciiWs, hc]
    rw [h32, fold_tok t hws, ih (fun y hy => hts y (List.mem_cons_of_mem _ hy)) _ _ (by simpa using hne)]
    simp

/-- tokenisation: splitting single-space-joined good tokens returns exactly the tokens -/
theorem split_join (ts : List Bytes) (hts : ∀ t ∈ ts, GoodTok t) : splitAsciiWhitespace (joinSp ts) = ts := by
  cases ts with
  | nil => rfl
  | cons t ts =>
    obtain ⟨hne, hws⟩ := hts t (List.mem_cons_self)
    rw [split_eq, joinSp, List.foldl_append, fold_tok t hws,
      fold_tail ts (fun y hy => hts y (List.mem_cons_of_mem _ hy)) _ _ (by simpa using hne)]
    simp

/-- a UCI move text is non-empty and contains no whitespace byte -/
theorem fmtUci_good (u : UciMove) : GoodTok (fmtUci u) := by
  cases u with
  | null => exact ⟨by simp [fmtUci], by decide⟩
  | move src dst p =>
    constructor
    · simp [fmtUci, fmtCoord]
    · intro x hx
      have h1 := src.file.isLt; have h2 := src.rank.isLt; have h3 := dst.file.isLt; have h4 := dst.rank.isLt
      simp only [fmtUci, fmtCoord, fileByte, rankByte, List.mem_append, List.mem_cons, List.not_mem_nil, or_false] at hx
      have hx' : (97 ≤ x ∧ x ≤ 104) ∨ (49 ≤ x ∧ x ≤ 56) ∨ x = 110 ∨ x = 98 ∨ x = 114 ∨ x = 113 := by
        rcases hx with (((hx | hx) | (hx | hx)) | hx)
        · omega
        · omega
        · omega
        · omega
        · revert hx
          cases p with
          | none => simp
          | some q => cases q <;> simp <;> omega
      simp only [isAsciiWs, Bool.or_eq_false_iff, decide_eq_false_iff_not]
      omega

/-- `UciList` display: the moves' UCI texts joined by single spaces -/
theorem uciList_eq (ch : Chain) : ch.uciList = joinSp (ch.stack.map fun e => fmtUci (uciOfMove e.1)) := by
  unfold Chain.uciList
  generalize (ch.stack.map fun e => fmtUci (uciOfMove e.1)) = ts
  have key : ∀ (ts : List Bytes) (acc : Bytes),
      (ts.foldl (fun (acc : Bytes × Bool) t => ((if acc.2 then acc.1 else acc.1 ++ [32]) ++ t, false)) (acc, false)).1
        = acc ++ tailSp ts := by
    intro ts
    induction ts with
    | nil => intro acc; simp [tailSp]
    | cons t ts ih =>
      intro acc
      rw [List.foldl_cons]
      simp only [Bool.false_eq_true, if_false]
      rw [ih]
      simp [tailSp]
  cases ts with
  | nil => rfl
  | cons t ts =>
    rw [List.foldl_cons]
    simp only [if_true, List.nil_append]
    rw [key]; rfl

/-- a legal continuation from `b`, head first, with the undo records `make` returns -/
def GameFrom : Board → List (Move × RawUndo) → Prop
  | _, [] => True
  | b, (m, u) :: st => LegalStep b m ∧ u = (makeMove b m).2 ∧ GameFrom (makeMove b m).1 st

theorem gameFrom_snoc (st : List (Move × RawUndo)) (m : Move) :
    ∀ b, GameFrom b st → LegalStep (replay b (st.map (·.1))) m →
      GameFrom b (st ++ [(m, (makeMove (replay b (st.map (·.1))) m).2)]) := by
  induction st with
  | nil => intro b _ hl; exact ⟨hl, rfl, trivial⟩
  | cons e st ih =>
    intro b hg hl
    obtain ⟨m', u'⟩ := e
    obtain ⟨g1, g2, g3⟩ := hg
    exact ⟨g1, g2, ih _ g3 hl⟩

theorem gameFrom_of_game {b0 : Board} : ∀ {st hs b}, Game b0 st hs b → GameFrom b0 st := by
  intro st hs b h
  induction h with
  | nil => exact trivial
  | @snoc st hs bp m hg hl ih =>
    have hb := hg.board_eq
    rw [hb] at hl ⊢
    exact gameFrom_snoc st m b0 ih hl

/-- single step: on a valid position the UCI text of a legal move is accepted as exactly that move -/
theorem makeUciStr_fmt (b : Board) (hv : Valid b) (m : Move) (hl : LegalStep b m) :
    makeUciStr b (fmtUci (uciOfMove m)) = .ok (m, (makeMove b m).1) := by
  unfold makeUciStr
  rw [C10.uci_roundtrip_valid b.r b ((valid_iff_validate b).mp hv) m hl.wf hl.sl]
  simp only
  obtain ⟨ok, h1, h2⟩ := C02.tryUnchecked_eq b m hv hl.wf hl.sl
  rw [hl.legal] at h1
  cases h1
  rw [h2]
  rfl

/-- replaying the UCI texts of a legal continuation pushes exactly that continuation, with no error -/
theorem go_replay (st : List (Move × RawUndo)) : ∀ (ch : Chain) (pos : Nat), ChainInv ch → GameFrom ch.board st →
    let r := Chain.pushUciList.go ch (st.map fun e => fmtUci (uciOfMove e.1)) pos
    r.2 = none ∧ ChainInv r.1 ∧ r.1.stack = ch.stack ++ st ∧ r.1.start = ch.start ∧ r.1.outcome = ch.outcome := by
  induction st with
  | nil => intro ch pos h _; exact ⟨rfl, h, by simp [Chain.pushUciList.go], rfl, rfl⟩
  | cons e st ih =>
    intro ch pos h hg
    obtain ⟨m, u⟩ := e
    obtain ⟨g1, g2, g3⟩ := hg
    have hm := makeUciStr_fmt ch.board h.valid m g1
    have hp : ch.pushWith (makeUciStr ch.board (fmtUci (uciOfMove m)))
        = .ok (ch.finishPush (makeMove ch.board m).1 m (undoOf ch.board m)) := by rw [hm]; rfl
    obtain ⟨mv, _, _, hinv', _⟩ := push_ok ch _ h _ (makeUciStr_ok ch.board _ h.valid) hp
    simp only [List.map_cons, Chain.pushUciList.go, hp]
    obtain ⟨i1, i2, i3, i4, i5⟩ := ih (ch.finishPush (makeMove ch.board m).1 m (undoOf ch.board m)) (pos + 1) hinv' g3
    refine ⟨i1, i2, ?_, i4, i5⟩
    rw [i3, g2]
    simp [Chain.finishPush, undoOf]

/-- C17 (UCI list): the chain's UCI list text, replayed from the start position, is accepted completely and rebuilds
the same start, the same stack (moves and undo records), the same board; the rebuilt chain compares equal to the
original with its stored outcome cleared (the text does not carry the outcome), hence equal to the original whenever
the original has no stored outcome -/
theorem uciList_replay (ch : Chain) (h : ChainInv ch) :
    let r := (Chain.new (buildBoard ch.start)).pushUciList ch.uciList
    r.2 = none ∧ ChainInv r.1 ∧ r.1.start = ch.start ∧ r.1.stack = ch.stack ∧ r.1.board = ch.board
      ∧ r.1.outcome = none ∧ r.1.beq { ch with outcome := none } = true
      ∧ (ch.outcome = none → r.1.beq ch = true) := by
  obtain ⟨hs, hinv⟩ := h
  have hnew : ChainInv (Chain.new (buildBoard ch.start)) := new_inv _ hinv.start
  have hgf : GameFrom (Chain.new (buildBoard ch.start)).board ch.stack := gameFrom_of_game hinv.game
  have htok : splitAsciiWhitespace ch.uciList = ch.stack.map fun e => fmtUci (uciOfMove e.1) := by
    rw [uciList_eq]
    apply split_join
    intro t ht
    obtain ⟨e, _, rfl⟩ := List.mem_map.mp ht
    exact fmtUci_good _
  obtain ⟨i1, i2, i3, i4, i5⟩ := go_replay ch.stack (Chain.new (buildBoard ch.start)) 0 hnew hgf
  unfold Chain.pushUciList
  rw [htok]
  simp only
  have i3' : (Chain.pushUciList.go (Chain.new (buildBoard ch.start))
      (ch.stack.map fun e => fmtUci (uciOfMove e.1)) 0).1.stack = ch.stack := by
    rw [i3]; rfl
  have i4' : (Chain.pushUciList.go (Chain.new (buildBoard ch.start))
      (ch.stack.map fun e => fmtUci (uciOfMove e.1)) 0).1.start = ch.start := i4
  have hb : (Chain.pushUciList.go (Chain.new (buildBoard ch.start))
      (ch.stack.map fun e => fmtUci (uciOfMove e.1)) 0).1.board = ch.board := by
    rw [chain_faithful _ i2, chain_faithful ch ⟨hs, hinv⟩, i3', i4']
  refine ⟨i1, i2, i4', i3', hb, i5, ?_, ?_⟩
  · exact (beq_iff _ _).mpr ⟨i4', by rw [i3'], i5⟩
  · intro ho
    exact (beq_iff _ _).mpr ⟨i4', by rw [i3'], by rw [ho]; exact i5⟩

/-! ## 7. the styled list -/

/-- the game as the list of (position before the move, move), in game order -/
def pairs (st : List (Move × RawUndo)) (hs : List Board) : List (Board × Move) :=
  List.zipWith (fun b e => (b, e.1)) hs st

theorem pairs_length {st : List (Move × RawUndo)} {hs : List Board} (hS : Steps st hs) :
    (pairs st hs).length = st.length := by
  unfold pairs; rw [List.length_zipWith, hS.len]; omega

theorem pairs_get {st : List (Move × RawUndo)} {hs : List Board} {k : Nat} {b : Board} {m : Move} {u : RawUndo}
    (h1 : hs[k]? = some b) (h2 : st[k]? = some (m, u)) : (pairs st hs)[k]? = some (b, m) := by
  unfold pairs; rw [List.getElem?_zipWith, h1, h2]

theorem pairs_drop {st : List (Move × RawUndo)} {hs : List Board} {k : Nat} {b : Board} {m : Move} {u : RawUndo}
    (h1 : hs[k]? = some b) (h2 : st[k]? = some (m, u)) :
    (pairs st hs).drop k = (b, m) :: (pairs st hs).drop (k + 1) := by
  obtain ⟨hlt, he⟩ := List.getElem?_eq_some_iff.mp (pairs_get h1 h2)
  rw [List.drop_eq_getElem_cons hlt, he]

/-- the moves of `pairs`, in order, are exactly the moves of the stack -/
theorem pairs_moves (st : List (Move × RawUndo)) : ∀ (hs : List Board), st.length ≤ hs.length →
    (pairs st hs).map (·.2) = st.map (·.1) := by
  induction st with
  | nil => intro hs _; simp [pairs]
  | cons e st ih =>
    intro hs hl
    cases hs with
    | nil => simp at hl
    | cons b hs =>
      have := ih hs (by simpa using hl)
      simp only [pairs, List.zipWith_cons_cons, List.map_cons] at this ⊢
      rw [this]

theorem game_head {b0 : Board} : ∀ {st hs b}, Game b0 st hs b → hs[0]? = some b0 := by
  intro st hs b h
  induction h with
  | nil => rfl
  | @snoc st hs bp m hg hl ih =>
    have := hg.len
    rw [List.getElem?_append_left (by omega)]; exact ih

/-- the full-move number never decreases along a game (for a start number in the `u16` range, which the saturating
increment of the model needs) -/
theorem mn_mono {st : List (Move × RawUndo)} {hs : List Board} (hS : Steps st hs) :
    ∀ (i : Nat) (b0 b : Board), hs[0]? = some b0 → b0.r.mn ≤ 65535 → hs[i]? = some b →
      b0.r.mn ≤ b.r.mn ∧ b.r.mn ≤ 65535 := by
  intro i
  induction i with
  | zero => intro b0 b h0 hb h1; rw [h0] at h1; cases h1; exact ⟨Nat.le_refl _, hb⟩
  | succ i ih =>
    intro b0 b h0 hb h1
    have hlt : i < st.length := by
      have := (List.getElem?_eq_some_iff.mp h1).1
      have := hS.len
      omega
    obtain ⟨bi, m, u, e1, e2, e3, _⟩ := hS.step i hlt
    rw [e3] at h1
    cases h1
    have := ih b0 bi h0 hb e1
    rw [make_mn]
    unfold satInc
    split
    · split <;> omega
    · exact this

def startNumOf (nums : NumberPolicy) (realStart : Nat) : Option Nat :=
  match nums with
  | .omit => none | .fromBoard => some realStart | .custom u => some u

/-- what is printed before the first move: its number, then `. ` (white to move) or `... ` (black to move) -/
def headTxt (startNum : Option Nat) (b : Board) : Bytes :=
  match startNum with
  | some num => (match b.r.side with
      | .white => fmtNat num ++ [46, 32]
      | .black => fmtNat num ++ [46, 46, 46, 32])
  | none => []

/-- what is printed before a later move made in position `b`: for a white move ` N.` with
`N = b.mn - realStart + num`, nothing for a black move -/
def numTxt (startNum : Option Nat) (realStart : Nat) (b : Board) : Bytes :=
  match startNum with
  | some num => if b.r.side = .white then [32] ++ fmtNat (b.r.mn - realStart + num) ++ [46] else []
  | none => []

/-- the text of the moves after the first: each is (number text) (space) (move text) -/
def itemsTxt (style : MoveStyle) (startNum : Option Nat) (realStart : Nat) : List (Board × Move) → Option Bytes
  | [] => some []
  | (b, mv) :: rest =>
    match fmtStyledMove? mv b style with
    | none => none
    | some t =>
      match itemsTxt style startNum realStart rest with
      | none => none
      | some r => some (numTxt startNum realStart b ++ [32] ++ t ++ r)

theorem loop_spec {st : List (Move × RawUndo)} {hs : List Board} (hS : Steps st hs) (style : MoveStyle)
    (realStart : Nat) (startNum : Option Nat) (hmono : ∀ (i : Nat) (b : Board), hs[i]? = some b → realStart ≤ b.r.mn) :
    ∀ (fuel : Nat) (w : Walker) (out : Bytes), WalkerInv st hs w → st.length - w.pos < fuel →
      Chain.styled?.loop style realStart startNum fuel w out
        = (itemsTxt style startNum realStart ((pairs st hs).drop w.pos)).map (out ++ ·) := by
  intro fuel
  induction fuel with
  | zero => intro w out _ hf; omega
  | succ fuel ih =>
    intro w out hw hf
    unfold Chain.styled?.loop
    rcases next_spec hS w hw with ⟨he, hn⟩ | ⟨hlt, w', b, mv, u, hn, hi, hp, e1, e2⟩
    · rw [hn]
      simp only
      rw [List.drop_eq_nil_of_le (by rw [pairs_length hS, he]; exact Nat.le_refl _)]
      simp [itemsTxt]
    · rw [hn]
      simp only
      rw [pairs_drop e2 e1]
      simp only [itemsTxt]
      have hm := hmono w.pos b e2
      cases hfm : fmtStyledMove? mv b style with
      | none => rfl
      | some t =>
        simp only
        rw [ih w' _ hi (by rw [hp]; omega), hp]
        clear ih
        cases hit : itemsTxt style startNum realStart ((pairs st hs).drop (w.pos + 1)) with
        | none => rfl
        | some r =>
          cases startNum with
          | none => simp [numTxt, List.append_assoc]
          | some num =>
            by_cases hside : b.r.side = Color.white
            · have : ¬ (b.r.mn + num < realStart) := by omega
              simp [numTxt, hside, this, List.append_assoc]
            · simp [numTxt, hside, List.append_assoc]

/-- C17 (styled list): the exact output.  The moves are printed in game order, each styled in the position that
preceded it; the first is preceded by its number (`realStart` or the custom one) and `. ` / `... `; every later white
move by ` N.` with `N = (its position's move number) - realStart + (first number)`; the status token, when asked for,
is `fmtStatus` of the stored outcome; the printer panics exactly when some move cannot be styled -/
theorem styled_spec (ch : Chain) (hs : List Board) (h : ChainInvH ch hs) (hmn : ch.start.mn ≤ 65535)
    (nums : NumberPolicy) (style : MoveStyle) (showStatus : Bool) :
    ch.styled? nums style showStatus =
      match pairs ch.stack hs with
      | [] => some (if showStatus then fmtStatus ch.outcome else [])
      | (b0, m0) :: rest =>
        match fmtStyledMove? m0 b0 style, itemsTxt style (startNumOf nums b0.r.mn) b0.r.mn rest with
        | some t, some r =>
          some (headTxt (startNumOf nums b0.r.mn) b0 ++ t ++ r
            ++ (if showStatus then [32] ++ fmtStatus ch.outcome else []))
        | _, _ => none := by
  have hS := steps_of_inv h
  obtain ⟨hw, hp0, _⟩ := walk_inv ch hs h
  unfold Chain.styled?
  by_cases hemp : ch.stack = []
  · rw [hemp]; simp [pairs]
  · have hne : ch.stack.isEmpty = false := by
      cases hst : ch.stack with
      | nil => exact absurd hst hemp
      | cons _ _ => rfl
    rw [hne]
    simp only [Bool.false_eq_true, if_false]
    have hlen : 0 < ch.stack.length := by
      cases hst : ch.stack with
      | nil => exact absurd hst hemp
      | cons _ _ => simp
    rcases next_spec hS ch.walk hw with ⟨he, _⟩ | ⟨hlt, w', b, mv, u, hn, hi, hp, e1, e2⟩
    · rw [hp0] at he; omega
    · rw [hp0] at hp e1 e2
      rw [hn]
      simp only
      have hd := pairs_drop e2 e1
      rw [List.drop_zero] at hd
      rw [hd]
      simp only
      have hb0 : b = buildBoard ch.start := by
        have := game_head h.game
        rw [e2] at this; exact Option.some.inj this
      have hmono : ∀ (i : Nat) (b' : Board), hs[i]? = some b' → b.r.mn ≤ b'.r.mn :=
        fun i b' hb' => (mn_mono hS i b b' e2 (by rw [hb0]; exact hmn) hb').1
      cases hfm : fmtStyledMove? mv b style with
      | none => rfl
      | some t =>
        simp only
        rw [loop_spec hS style b.r.mn _ hmono _ w' _ hi (by omega), hp]
        cases nums <;> simp only [startNumOf] <;> generalize itemsTxt style _ b.r.mn _ = it <;> cases it
        all_goals first
          | rfl
          | (cases showStatus <;> simp [headTxt, List.append_assoc] <;> cases b.r.side <;> rfl)

/-- the first printed position is the chain's start position, so `realStart` is the start position's move number -/
theorem pairs_head (ch : Chain) (hs : List Board) (h : ChainInvH ch hs) (b0 : Board) (m0 : Move)
    (rest : List (Board × Move)) (hp : pairs ch.stack hs = (b0, m0) :: rest) : b0 = buildBoard ch.start := by
  have h0 := game_head h.game
  cases hst : ch.stack with
  | nil => rw [hst] at hp; simp [pairs] at hp
  | cons e st =>
    cases hhs : hs with
    | nil => rw [hhs] at h0; simp at h0
    | cons b hs' =>
      rw [hst, hhs] at hp
      rw [hhs] at h0
      simp only [pairs, List.zipWith_cons_cons, List.cons.injEq, Prod.mk.injEq] at hp
      simp only [List.getElem?_cons_zero, Option.some.injEq] at h0
      rw [← hp.1.1, h0]

/-- numbering with `FromBoard`: a later white move made in position `b` is preceded by ` N.` with `N` the move
number of `b` itself -/
theorem numTxt_fromBoard (realStart : Nat) (b : Board) (hle : realStart ≤ b.r.mn) (hw : b.r.side = .white) :
    numTxt (startNumOf .fromBoard realStart) realStart b = [32] ++ fmtNat b.r.mn ++ [46] := by
  simp only [numTxt, startNumOf, hw, if_true]
  rw [Nat.sub_add_cancel hle]

/-- numbering with `Custom u`: ` N.` with `N = u + (moves numbers elapsed since the start position)` -/
theorem numTxt_custom (u realStart : Nat) (b : Board) (hw : b.r.side = .white) :
    numTxt (startNumOf (.custom u) realStart) realStart b = [32] ++ fmtNat (b.r.mn - realStart + u) ++ [46] := by
  simp only [numTxt, startNumOf, hw, if_true]

/-- a black move is never preceded by a number; with `Omit` no move is -/
theorem numTxt_none (sn : Option Nat) (realStart : Nat) (b : Board) (h : b.r.side = .black ∨ sn = none) :
    numTxt sn realStart b = [] := by
  rcases h with h | h
  · cases sn <;> simp [numTxt, h]
  · subst h; rfl

/-- C17 (status token), for EVERY chain (no invariant needed): the output with the status is the output without it,
then a space (unless there is no move), then `fmtStatus` of the stored outcome -/
theorem styled_status (ch : Chain) (nums : NumberPolicy) (style : MoveStyle) (out : Bytes)
    (h : ch.styled? nums style true = some out) :
    ∃ body, ch.styled? nums style false = some body
      ∧ out = body ++ (if ch.stack.isEmpty then [] else [32]) ++ fmtStatus ch.outcome := by
  unfold Chain.styled? at h ⊢
  split at h
  · rename_i he
    rw [if_pos he]
    cases h
    exact ⟨[], rfl, by simp [he]⟩
  · rename_i he
    rw [if_neg he]
    split at h
    · rename_i w b mv hn
      simp only at h ⊢
      split at h
      · cases h
      · rename_i t hfm
        split at h
        · cases h
        · rename_i body hl
          simp only [if_true, Option.some.injEq] at h
          subst h
          exact ⟨body, by simp, by simp [he]⟩
    · cases h

theorem Forall2.get {α β : Type} {R : α → β → Prop} : ∀ {l1 : List α} {l2 : List β}, Forall2 R l1 l2 →
    l1.length = l2.length ∧ ∀ (k : Nat) (a : α) (b : β), l1[k]? = some a → l2[k]? = some b → R a b := by
  intro l1 l2 h
  induction h with
  | nil => exact ⟨rfl, fun k a b h => by simp at h⟩
  | @cons a b as bs hr _ ih =>
    refine ⟨by simp [ih.1], ?_⟩
    intro k x y h1 h2
    cases k with
    | zero => simp at h1 h2; subst h1 h2; exact hr
    | succ k => simp at h1 h2; exact ih.2 k x y h1 h2

/-! ## non-vacuity: 1. e4 e5 from the initial position -/

/-- the chain after `push_uci_list "e2e4 e7e5"` on the initial position satisfies the invariant all theorems assume -/
example : ChainInv ((Chain.new (buildBoard C04.initialRaw)).pushUciList [101,50,101,52,32,101,55,101,53]).1 :=
  (pushUciList_go _ _ 0 (new_inv _ ((valid_iff_validate _).mpr (by decide +kernel)))).1
example : ((Chain.new (buildBoard C04.initialRaw)).pushUciList [101,50,101,52,32,101,55,101,53]).1.uciList
    = [101,50,101,52,32,101,55,101,53] := by decide +kernel
/-- `1. e2e4 e7e5 *` -/
example : ((Chain.new (buildBoard C04.initialRaw)).pushUciList [101,50,101,52,32,101,55,101,53]).1.styled?
    .fromBoard .uci true = some [49,46,32,101,50,101,52,32,101,55,101,53,32,42] := by decide +kernel
/-- next, next, next (at the end: nothing), prev, to_start, next -/
example : (runSteps ((Chain.new (buildBoard C04.initialRaw)).pushUciList [101,50,101,52,32,101,55,101,53]).1.walk
    [.next, .next, .next, .prev, .toStart, .next]).map (fun r => r.2.map (·.2)) =
    some [⟨.double, 1, 52, 36⟩, ⟨.double, 7, 12, 28⟩, ⟨.double, 7, 12, 28⟩, ⟨.double, 1, 52, 36⟩] := by decide +kernel

end Owl.Props.C17
