/-
C11  Validation accepts exactly the valid raw boards and normalises them consistently.
`Spec.ValidRaw` is the condition of the statement; `Spec.normalise` drops exactly the unbacked rights and
en-passant marks; `Spec.Holds r p` says rejection reason `r` really holds of position `p`.
-/
import OwlModel.Lemmas.Validate
import OwlModel.Props.C04

namespace Owl.Props.C11
open Owl Owl.Impl Owl.Lemmas

theorem ep_step_some (p : Sq) (c : Color) (h : p.rank = epSrcRank c) : (p.add? (forwardDelta c)).isSome = true := by
  revert h; cases c <;> revert p <;> decide

theorem normaliseEp_cases (raw : RawBoard) :
    (∃ raw1, normaliseEp raw = .ok raw1 ∧ (match raw.ep with | some e => Spec.rank e = Spec.epRank raw.side | none => True))
    ∨ (∃ p, normaliseEp raw = .err (.invalidEnpassant p) ∧ raw.ep = some p ∧ Spec.rank p ≠ Spec.epRank raw.side) := by
  unfold normaliseEp
  cases hep : raw.ep with
  | none => exact Or.inl ⟨raw, rfl, trivial⟩
  | some p =>
    simp only
    by_cases hr : p.rank = epSrcRank raw.side
    · left
      have hs := ep_step_some p raw.side hr
      cases hadd : p.add? (forwardDelta raw.side) with
      | none => rw [hadd] at hs; cases hs
      | some pp =>
        simp only [hr, ne_eq, not_true_eq_false, if_false]
        split
        · exact ⟨_, rfl, (epSrcRank_eq p raw.side).mp hr⟩
        · exact ⟨_, rfl, (epSrcRank_eq p raw.side).mp hr⟩
    · right
      refine ⟨p, by simp [hr], rfl, fun e => hr ((epSrcRank_eq p raw.side).mpr e)⟩

theorem validRaw_iff (p : Spec.Pos) : Spec.ValidRaw p = true ↔
    ((match p.ep with | some e => Spec.rank e = Spec.epRank p.side | none => True)
     ∧ (Spec.menOf p .white).length ≤ 16 ∧ (Spec.menOf p .black).length ≤ 16
     ∧ (Spec.kingSqs p .white).length = 1 ∧ (Spec.kingSqs p .black).length = 1
     ∧ (Spec.pawnSqs p).all (fun s => decide (Spec.rank s ≠ 0 ∧ Spec.rank s ≠ 7)) = true
     ∧ Spec.inCheck (Spec.normalise p) p.side.inv = false) := by
  unfold Spec.ValidRaw
  cases p.ep <;> simp [and_assoc]

/-- nothing in the position beyond the board matters to the counting conditions -/
theorem menOf_normalise (p : Spec.Pos) (c : Color) : Spec.menOf (Spec.normalise p) c = Spec.menOf p c := rfl
theorem kingSqs_normalise (p : Spec.Pos) (c : Color) : Spec.kingSqs (Spec.normalise p) c = Spec.kingSqs p c := rfl
theorem pawnSqs_normalise (p : Spec.Pos) : Spec.pawnSqs (Spec.normalise p) = Spec.pawnSqs p := rfl

/-- success: the input was valid, the result is the normalised input with its derived state -/
theorem validate_ok (raw : RawBoard) (b : Board) (h : validate raw = .ok b) :
    Spec.ValidRaw (abs raw) = true ∧ abs b.r = Spec.normalise (abs raw) ∧ Consistent b := by
  unfold validate at h
  rcases normaliseEp_cases raw with ⟨raw1, hn, hrank⟩ | ⟨p, hn, _, _⟩
  · rw [hn] at h
    simp only at h
    have F := facts_build (normaliseCastling raw1)
    obtain ⟨hb, h1, h2, h3, h4, h5, h6⟩ := checkBoard_ok _ b _ F h
    have habs := abs_normalise raw raw1 hn
    rw [habs] at h1 h2 h3 h4 h5 h6
    rw [menOf_normalise] at h1 h2
    rw [kingSqs_normalise] at h3 h4
    rw [pawnSqs_normalise] at h5
    have hside : (normaliseCastling raw1).side = raw.side := by
      have := (normaliseEp_spec raw raw1 hn).2.1
      rw [(normaliseCastling_spec raw1).2.1, this]
    rw [hside] at h6
    subst hb
    refine ⟨?_, habs, rfl⟩
    rw [validRaw_iff]
    refine ⟨?_, h1, h2, h3, h4, h5, h6⟩
    rw [abs_ep, abs_side]
    cases he : raw.ep with
    | none => trivial
    | some e => rw [he] at hrank; exact hrank
  · rw [hn] at h; cases h

/-- failure: the reported reason is a condition that really holds on that board -/
theorem validate_err_sound (raw : RawBoard) (e : ValidateError) (h : validate raw = .err e) :
    Spec.Holds (absErr e) (abs raw) := by
  unfold validate at h
  rcases normaliseEp_cases raw with ⟨raw1, hn, _⟩ | ⟨p, hn, hep, hrank⟩
  · rw [hn] at h
    simp only at h
    have F := facts_build (normaliseCastling raw1)
    have hc := checkBoard_err _ _ F e h
    have habs := abs_normalise raw raw1 hn
    have hside : (normaliseCastling raw1).side = raw.side := by
      have := (normaliseEp_spec raw raw1 hn).2.1
      rw [(normaliseCastling_spec raw1).2.1, this]
    rw [habs] at hc
    cases e with
    | invalidEnpassant s => exact absurd hc id
    | tooManyPieces c => exact hc
    | noKing c => exact hc
    | tooManyKings c => exact hc
    | invalidPawn s => exact hc
    | opponentKingAttacked => rw [hside] at hc; exact hc
  · rw [hn] at h
    injection h with h; subst h
    exact ⟨by rw [abs_ep]; exact hep, hrank⟩

/-- the gate never panics -/
theorem validate_no_trap (raw : RawBoard) (w : String) : validate raw ≠ .trap w := by
  intro h
  unfold validate at h
  rcases normaliseEp_cases raw with ⟨raw1, hn, _⟩ | ⟨p, hn, _, _⟩
  · rw [hn] at h
    exact checkBoard_notrap _ _ (facts_build (normaliseCastling raw1)) w h
  · rw [hn] at h; cases h

/-- a reason that holds contradicts validity -/
theorem holds_not_valid (p : Spec.Pos) (r : Spec.Reject) (h : Spec.Holds r p) : Spec.ValidRaw p = false := by
  cases hv : Spec.ValidRaw p with
  | false => rfl
  | true =>
    exfalso
    obtain ⟨hep, h1, h2, h3, h4, h5, h6⟩ := (validRaw_iff p).mp hv
    cases r with
    | invalidEnpassant s =>
      obtain ⟨he, hr⟩ := h
      rw [he] at hep; exact hr hep
    | tooManyPieces c =>
      have : (Spec.menOf p c).length > 16 := h
      cases c <;> omega
    | noKing c =>
      have : Spec.kingSqs p c = [] := h
      cases c <;> simp [this] at h3 h4
    | tooManyKings c =>
      have : (Spec.kingSqs p c).length > 1 := h
      cases c <;> omega
    | invalidPawn s =>
      obtain ⟨hm, hr⟩ := h
      have := (List.all_eq_true.mp h5) s hm
      simp only [decide_eq_true_eq] at this
      rcases hr with hr | hr
      · exact this.1 hr
      · exact this.2 hr
    | opponentKingAttacked =>
      have : Spec.inCheck (Spec.normalise p) p.side.inv = true := h
      rw [this] at h6; cases h6

/-- C11: conversion succeeds exactly when the raw board is valid -/
theorem validate_ok_iff (raw : RawBoard) : (∃ b, validate raw = .ok b) ↔ Spec.ValidRaw (abs raw) = true := by
  constructor
  · intro ⟨b, h⟩; exact (validate_ok raw b h).1
  · intro hv
    cases h : validate raw with
    | ok b => exact ⟨b, rfl⟩
    | err e =>
      have := holds_not_valid _ _ (validate_err_sound raw e h)
      rw [hv] at this; cases this
    | trap w => exact absurd h (validate_no_trap raw w)

/-- validating the result again changes nothing -/
theorem validate_idem (raw : RawBoard) (b : Board) (h : validate raw = .ok b) : validate b.r = .ok b := by
  have hs := validate_shape raw b h
  have hcons : b = buildBoard b.r := hs.cons
  unfold validate at h ⊢
  rw [normaliseEp_fix b.r hs.ep]
  simp only
  rw [normaliseCastling_fix b.r hs.rights, ← hcons]
  rcases normaliseEp_cases raw with ⟨raw1, hn, _⟩ | ⟨p, hn, _, _⟩
  · rw [hn] at h
    simp only at h
    have hb := (checkBoard_ok _ b _ (facts_build _) h).1
    rw [← hb] at h
    exact h
  · rw [hn] at h; cases h

/-! non-vacuity: the initial array is valid and is returned unchanged -/
example : Spec.ValidRaw (abs C04.initialRaw) = true := by decide +kernel
example : abs C04.initialRaw = Spec.normalise (abs C04.initialRaw) := by decide +kernel

end Owl.Props.C11
