/-
C14  Repetition counting and the chain's outcome follow the game history.
Over the chain invariant of C13 (`ChainInvH ch hs`: `hs` = every position of the game so far):
`calc_spec` — the chain's calculation is the position's own outcome when that is forced or a mandatory draw, else
five / three occurrences of the current position's hash in `hs` give the mandatory / claimable repetition draw, else
the position's own outcome; `occurrences_ge` — every true repetition (same squares, side, rights, en-passant mark) is
counted (C05), over-counting needs a 64-bit hash collision; `passes_table`, `auto_spec` — automatic setting stores the
calculated outcome exactly when it passes the filter; `pop_push_counts` — pops lower the counts exactly as pushes
raised them; `calc_total` — no panic.
The position's own outcome (`Board::calc_outcome`: mate / stalemate / insufficient material / 75 / 50) is C07.
-/
import OwlModel.Props.C13
import OwlModel.Props.C05

namespace Owl.Props.C14
open Owl Owl.Impl Owl.Lemmas Owl.Props Owl.Props.C13

/-- the filters are nested: whatever passes `force` passes `strict`, and whatever passes `strict` passes `relaxed` -/
theorem passes_mono : ∀ (o : Outcome),
    (o.passes .force = true → o.passes .strict = true) ∧ (o.passes .strict = true → o.passes .relaxed = true) := by
  intro o
  cases o with
  | win c r => cases c <;> cases r <;> decide
  | draw r => cases r <;> decide

/-- `is_force` holds for checkmate and stalemate only, and is exactly "passes the `force` filter" -/
theorem is_force_exact : ∀ (o : Outcome),
    (o.isForce = true ↔ (∃ c, o = .win c .checkmate) ∨ o = .draw .stalemate) ∧ o.passes .force = o.isForce := by
  intro o
  cases o with
  | win c r => cases c <;> cases r <;> simp [Outcome.isForce, Outcome.passes]
  | draw r => cases r <;> simp [Outcome.isForce, Outcome.passes]

/-- C14: forced outcomes pass every filter, mandatory draws the strict and relaxed ones, claimable draws only the
relaxed one; nothing else passes any filter (the other reasons are never produced by the calculation) -/
theorem passes_table : ∀ (o : Outcome) (f : OutcomeFilter),
    o.passes f =
      (match o with
       | .win _ .checkmate | .draw .stalemate => true
       | .draw .insufficientMaterial | .draw .moves75 | .draw .repeat5 => decide (f ≠ .force)
       | .draw .moves50 | .draw .repeat3 => decide (f = .relaxed)
       | _ => false) := by
  intro o f
  cases o with
  | win s r => cases s <;> cases r <;> cases f <;> rfl
  | draw r => cases r <;> cases f <;> rfl

/-- occurrences of the current position's hash among the positions of the game so far (the current one included) -/
def occurrences (hs : List Board) (b : Board) : Nat := (hs.map (·.hash)).count b.hash

/-- C14: the chain's calculation, stated over the game history: the position's own outcome if it is forced or a
mandatory draw; otherwise five occurrences give the mandatory repetition draw, three the claimable one; otherwise
the position's own (claimable or absent) outcome -/
theorem calc_spec (ch : Chain) (hs : List Board) (h : ChainInvH ch hs) :
    ch.calcOutcome? =
      (match Impl.calcOutcome? ch.board with
       | none => none
       | some o =>
         if (o.any fun x => x.passes .strict) then some o
         else if occurrences hs ch.board ≥ 5 then some (some (.draw .repeat5))
         else if occurrences hs ch.board ≥ 3 then some (some (.draw .repeat3))
         else some o) := by
  unfold Chain.calcOutcome? occurrences
  rw [h.rep]
  cases Impl.calcOutcome? ch.board with
  | none => rfl
  | some o => simp only [Gen.chainFirstFilter, Gen.repeat5, Gen.repeat3, decide_eq_true_eq]

/-- C14: every earlier position with the same squares, side to move, castling rights and en-passant mark is counted
(equal repetition keys have equal hashes, C05); a count can exceed the true number of repetitions only through a
64-bit hash collision -/
theorem occurrences_ge (hs : List Board) (b : Board) (hb : Consistent b) (hcons : ∀ x ∈ hs, Consistent x) :
    (hs.filter fun x => decide (x.r.cells = b.r.cells ∧ x.r.side = b.r.side ∧ x.r.castling = b.r.castling
        ∧ x.r.ep = b.r.ep)).length ≤ occurrences hs b := by
  unfold occurrences
  rw [List.count_eq_countP, List.countP_map, ← List.countP_eq_length_filter]
  apply List.countP_mono_left
  intro x hx hk
  simp only [decide_eq_true_eq] at hk
  simp only [Function.comp, beq_iff_eq]
  exact C05.hash_depends_only_on_key x b (hcons x hx) hb hk.1 hk.2.1 hk.2.2.1 hk.2.2.2

theorem Game.consistent {b0 : Board} (h0 : Valid b0) : ∀ {st hs b}, Game b0 st hs b → ∀ x ∈ hs, Consistent x := by
  intro st hs b h
  induction h with
  | nil => intro x hx; simp at hx; subst hx; exact h0.shape.cons
  | snoc hg hl ih =>
    intro x hx
    rcases List.mem_append.mp hx with hx | hx
    · exact ih x hx
    · simp at hx; subst hx
      exact (valid_make _ _ (hg.valid h0) hl.wf hl.sl hl.legal).shape.cons

/-- C14: automatic outcome setting stores the calculated outcome exactly when it passes the requested filter, and
changes nothing else -/
theorem auto_spec (ch : Chain) (f : OutcomeFilter) :
    ch.setAutoOutcome? f =
      (match ch.calcOutcome? with
       | none => none
       | some none => some ch
       | some (some o) => some (if o.passes f then { ch with outcome := some o } else ch)) := by
  unfold Chain.setAutoOutcome?
  cases ch.calcOutcome? with
  | none => rfl
  | some o => cases o with
    | none => rfl
    | some o => simp only; split <;> rfl

/-- C14: a pop lowers the occurrence counts exactly as the push raised them (the table after push-then-pop counts
every hash as before); with `C13.pop_spec'` and `C13.push_ok` this is what the chain does with its table -/
theorem pop_push_counts (r : Repeat) (h : BB) (hw : RepWf r) :
    ∃ r', (r.push h).pop? h = some r' ∧ RepWf r' ∧ ∀ x, r'.count x = r.count x := by
  have hpw := push_spec r h hw
  have hc : (r.push h).count h ≠ 0 := by rw [hpw.2]; simp
  obtain ⟨r', hr1, hr2, hr3⟩ := pop_spec _ _ hpw.1 hc
  refine ⟨r', hr1, hr2, fun x => ?_⟩
  rw [hr3, hpw.2]
  split <;> omega

/-- C14 totality: on a chain that satisfies the invariant the calculation cannot panic -/
theorem calc_total (ch : Chain) (h : ChainInv ch) : ch.calcOutcome? ≠ none := by
  have hv := h.valid
  have hk : HasKings ch.board := by
    intro c
    obtain ⟨k, hk, hu⟩ := hv.checks.king c
    rw [kingPos_of ch.board hv.shape.cons c k hk hu]; rfl
  obtain ⟨v, hv1⟩ := isCheck_some ch.board hk
  obtain ⟨ck, hck⟩ := defaultChecker_some ch.board hk
  unfold Chain.calcOutcome? Impl.calcOutcome? hasLegalMoves?
  rw [hv1, hck]
  simp only [Option.map_some]
  cases (genForHasLegalMoves ch.board ch.board.r.side).any ck.isLegal <;> cases v <;> simp <;> (repeat' split) <;> simp

end Owl.Props.C14
