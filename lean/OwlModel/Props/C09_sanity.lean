/-
C09 (sanity of the trusted statements): the rules layer's `Spec.San.write` produces the customary texts on well-known
positions — kernel-checked tests of the specification the C09 theorems are stated against.
-/
import OwlModel.Spec.Text

namespace Owl.Props.C09
open Owl Owl.Spec

def sfen_initial : List Nat := [114, 110, 98, 113, 107, 98, 110, 114, 47, 112, 112, 112, 112, 112, 112, 112, 112, 47, 56, 47, 56, 47, 56, 47, 56, 47, 80, 80, 80, 80, 80, 80, 80, 80, 47, 82, 78, 66, 81, 75, 66, 78, 82, 32, 119, 32, 75, 81, 107, 113, 32, 45, 32, 48, 32, 49]
def sans (p : Pos) : List Bytes := (legalMoves p).map (San.write p)
def sameSet (a b : List Bytes) : Bool := a.length = b.length && a.all b.contains && b.all a.contains

/-- the twenty first moves -/
theorem spec_san_initial : (Fen.read sfen_initial).map (fun p => sameSet (sans p)
    [[97, 51], [97, 52], [98, 51], [98, 52], [99, 51], [99, 52], [100, 51], [100, 52], [101, 51], [101, 52], [102, 51], [102, 52], [103, 51], [103, 52], [104, 51], [104, 52], [78, 97, 51], [78, 99, 51], [78, 102, 51], [78, 104, 51]]) = some true := by decide +kernel

/-- capture with mate / check marks: `r1bqkb1r/pppp1ppp/2n2n2/4p2Q/2B1P3/8/PPPP1PPP/RNB1K1NR w KQkq - 4 4` -/
def sfen_mate_mark : List Nat := [114, 49, 98, 113, 107, 98, 49, 114, 47, 112, 112, 112, 112, 49, 112, 112, 112, 47, 50, 110, 50, 110, 50, 47, 52, 112, 50, 81, 47, 50, 66, 49, 80, 51, 47, 56, 47, 80, 80, 80, 80, 49, 80, 80, 80, 47, 82, 78, 66, 49, 75, 49, 78, 82, 32, 119, 32, 75, 81, 107, 113, 32, 45, 32, 52, 32, 52]
theorem spec_san_mate_mark : (Fen.read sfen_mate_mark).map (fun p => (sans p).contains [81, 120, 102, 55, 35] && (sans p).contains [81, 120, 101, 53, 43] && (sans p).contains [66, 120, 102, 55, 43] && (sans p).contains [78, 102, 51] && (sans p).contains [75, 101, 50] && !(sans p).contains [81, 120, 102, 55] && !(sans p).contains [81, 120, 102, 55, 43] && !(sans p).contains [81, 102, 55, 35]) = some true := by decide +kernel

/-- two knights reach d2: file hints: `4k3/8/8/8/8/8/8/1N2KN2 w - - 0 1` -/
def sfen_file_hint : List Nat := [52, 107, 51, 47, 56, 47, 56, 47, 56, 47, 56, 47, 56, 47, 56, 47, 49, 78, 50, 75, 78, 50, 32, 119, 32, 45, 32, 45, 32, 48, 32, 49]
theorem spec_san_file_hint : (Fen.read sfen_file_hint).map (fun p => (sans p).contains [78, 98, 100, 50] && (sans p).contains [78, 102, 100, 50] && (sans p).contains [78, 97, 51] && (sans p).contains [78, 103, 51] && !(sans p).contains [78, 100, 50] && !(sans p).contains [78, 49, 100, 50] && !(sans p).contains [78, 98, 49, 100, 50]) = some true := by decide +kernel

/-- two rooks on one file reach a3: rank hints: `4k3/8/8/R7/8/8/8/R3K3 w - - 0 1` -/
def sfen_rank_hint : List Nat := [52, 107, 51, 47, 56, 47, 56, 47, 82, 55, 47, 56, 47, 56, 47, 56, 47, 82, 51, 75, 51, 32, 119, 32, 45, 32, 45, 32, 48, 32, 49]
theorem spec_san_rank_hint : (Fen.read sfen_rank_hint).map (fun p => (sans p).contains [82, 49, 97, 51] && (sans p).contains [82, 53, 97, 51] && (sans p).contains [82, 98, 49] && !(sans p).contains [82, 97, 51] && !(sans p).contains [82, 97, 97, 51]) = some true := by decide +kernel

/-- castling, en passant, promotions: `r3k2r/1P6/8/3pP3/8/8/8/R3K2R w KQkq d6 0 1` -/
def sfen_castles_ep_promo : List Nat := [114, 51, 107, 50, 114, 47, 49, 80, 54, 47, 56, 47, 51, 112, 80, 51, 47, 56, 47, 56, 47, 56, 47, 82, 51, 75, 50, 82, 32, 119, 32, 75, 81, 107, 113, 32, 100, 54, 32, 48, 32, 49]
theorem spec_san_castles_ep_promo : (Fen.read sfen_castles_ep_promo).map (fun p => (sans p).contains [79, 45, 79] && (sans p).contains [79, 45, 79, 45, 79] && (sans p).contains [101, 120, 100, 54] && (sans p).contains [98, 120, 97, 56, 61, 81, 43] && (sans p).contains [98, 56, 61, 78] && (sans p).contains [98, 120, 97, 56, 61, 82, 43] && !(sans p).contains [48, 45, 48] && !(sans p).contains [101, 120, 100, 54, 32, 101, 46, 112, 46] && !(sans p).contains [98, 56, 78] && !(sans p).contains [101, 100]) = some true := by decide +kernel

/-- queens on a4, h4 and h1 all reach e4: the a4 queen needs only its file, the h1 queen only its rank, the h4 queen
(sharing its rank with one and its file with the other) the full square: `4k3/8/8/8/Q6Q/8/8/4K2Q w - - 0 1` -/
def sfen_square_hint : List Nat := [52, 107, 51, 47, 56, 47, 56, 47, 56, 47, 81, 54, 81, 47, 56, 47, 56, 47, 52, 75, 50, 81, 32, 119, 32, 45, 32, 45, 32, 48, 32, 49]
theorem spec_san_square_hint : (Fen.read sfen_square_hint).map (fun p => (sans p).contains [81, 104, 52, 101, 52, 43] && (sans p).contains [81, 97, 101, 52, 43] && (sans p).contains [81, 49, 101, 52, 43] && !(sans p).contains [81, 104, 101, 52, 43]) = some true := by decide +kernel

end Owl.Props.C09
