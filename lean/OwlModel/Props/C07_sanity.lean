/-
C07 (sanity of the trusted statements): the rules layer's `Spec.outcome` classifies well-known positions as the Laws of
Chess do — kernel-checked tests of the specification the C07 theorems are stated against.
-/
import OwlModel.Spec.Text

namespace Owl.Props.C07
open Owl Owl.Spec

/-- fool's mate: White is checkmated: `rnb1kbnr/pppp1ppp/8/4p3/6Pq/5P2/PPPPP2P/RNBQKBNR w KQkq - 1 3` -/
def ofen_fools_mate : List Nat := [114, 110, 98, 49, 107, 98, 110, 114, 47, 112, 112, 112, 112, 49, 112, 112, 112, 47, 56, 47, 52, 112, 51, 47, 54, 80, 113, 47, 53, 80, 50, 47, 80, 80, 80, 80, 80, 50, 80, 47, 82, 78, 66, 81, 75, 66, 78, 82, 32, 119, 32, 75, 81, 107, 113, 32, 45, 32, 49, 32, 51]
theorem spec_outcome_fools_mate : (Fen.read ofen_fools_mate).map outcome = some (some (.checkmate .black)) := by decide +kernel

/-- scholar's mate: Black is checkmated: `r1bqkb1r/pppp1Qpp/2n2n2/4p3/2B1P3/8/PPPP1PPP/RNB1K1NR b KQkq - 0 4` -/
def ofen_scholars_mate : List Nat := [114, 49, 98, 113, 107, 98, 49, 114, 47, 112, 112, 112, 112, 49, 81, 112, 112, 47, 50, 110, 50, 110, 50, 47, 52, 112, 51, 47, 50, 66, 49, 80, 51, 47, 56, 47, 80, 80, 80, 80, 49, 80, 80, 80, 47, 82, 78, 66, 49, 75, 49, 78, 82, 32, 98, 32, 75, 81, 107, 113, 32, 45, 32, 48, 32, 52]
theorem spec_outcome_scholars_mate : (Fen.read ofen_scholars_mate).map outcome = some (some (.checkmate .white)) := by decide +kernel

/-- the textbook queen stalemate: `7k/5Q2/6K1/8/8/8/8/8 b - - 0 1` -/
def ofen_stalemate : List Nat := [55, 107, 47, 53, 81, 50, 47, 54, 75, 49, 47, 56, 47, 56, 47, 56, 47, 56, 47, 56, 32, 98, 32, 45, 32, 45, 32, 48, 32, 49]
theorem spec_outcome_stalemate : (Fen.read ofen_stalemate).map outcome = some (some .stalemate) := by decide +kernel

/-- king against king: `8/8/8/4k3/8/8/8/4K3 w - - 0 1` -/
def ofen_bare_kings : List Nat := [56, 47, 56, 47, 56, 47, 52, 107, 51, 47, 56, 47, 56, 47, 56, 47, 52, 75, 51, 32, 119, 32, 45, 32, 45, 32, 48, 32, 49]
theorem spec_outcome_bare_kings : (Fen.read ofen_bare_kings).map outcome = some (some .insufficient) := by decide +kernel

/-- king and knight against king: `8/8/8/4k3/8/2N5/8/4K3 w - - 0 1` -/
def ofen_knight : List Nat := [56, 47, 56, 47, 56, 47, 52, 107, 51, 47, 56, 47, 50, 78, 53, 47, 56, 47, 52, 75, 51, 32, 119, 32, 45, 32, 45, 32, 48, 32, 49]
theorem spec_outcome_knight : (Fen.read ofen_knight).map outcome = some (some .insufficient) := by decide +kernel

/-- bishops on squares of one colour only: `8/8/8/4k3/8/2B1b3/8/4K3 w - - 0 1` -/
def ofen_bishops_same : List Nat := [56, 47, 56, 47, 56, 47, 52, 107, 51, 47, 56, 47, 50, 66, 49, 98, 51, 47, 56, 47, 52, 75, 51, 32, 119, 32, 45, 32, 45, 32, 48, 32, 49]
theorem spec_outcome_bishops_same : (Fen.read ofen_bishops_same).map outcome = some (some .insufficient) := by decide +kernel

/-- bishops on both square colours: play goes on: `8/8/8/4k3/8/2B2b2/8/4K3 w - - 0 1` -/
def ofen_bishops_opposite : List Nat := [56, 47, 56, 47, 56, 47, 52, 107, 51, 47, 56, 47, 50, 66, 50, 98, 50, 47, 56, 47, 52, 75, 51, 32, 119, 32, 45, 32, 45, 32, 48, 32, 49]
theorem spec_outcome_bishops_opposite : (Fen.read ofen_bishops_opposite).map outcome = some (none) := by decide +kernel

/-- two knights: mate is possible, play goes on: `8/8/8/4k3/8/2NN4/8/4K3 w - - 0 1` -/
def ofen_two_knights : List Nat := [56, 47, 56, 47, 56, 47, 52, 107, 51, 47, 56, 47, 50, 78, 78, 52, 47, 56, 47, 52, 75, 51, 32, 119, 32, 45, 32, 45, 32, 48, 32, 49]
theorem spec_outcome_two_knights : (Fen.read ofen_two_knights).map outcome = some (none) := by decide +kernel

/-- clock 100: claimable fifty-move draw: `8/8/8/4k3/8/2R5/8/4K3 w - - 100 80` -/
def ofen_fifty : List Nat := [56, 47, 56, 47, 56, 47, 52, 107, 51, 47, 56, 47, 50, 82, 53, 47, 56, 47, 52, 75, 51, 32, 119, 32, 45, 32, 45, 32, 49, 48, 48, 32, 56, 48]
theorem spec_outcome_fifty : (Fen.read ofen_fifty).map outcome = some (some .moves50) := by decide +kernel

/-- clock 150: mandatory seventy-five-move draw: `8/8/8/4k3/8/2R5/8/4K3 w - - 150 120` -/
def ofen_seventyfive : List Nat := [56, 47, 56, 47, 56, 47, 52, 107, 51, 47, 56, 47, 50, 82, 53, 47, 56, 47, 52, 75, 51, 32, 119, 32, 45, 32, 45, 32, 49, 53, 48, 32, 49, 50, 48]
theorem spec_outcome_seventyfive : (Fen.read ofen_seventyfive).map outcome = some (some .moves75) := by decide +kernel

/-- the initial position: `rnbqkbnr/pppppppp/8/8/8/8/PPPPPPPP/RNBQKBNR w KQkq - 0 1` -/
def ofen_initial : List Nat := [114, 110, 98, 113, 107, 98, 110, 114, 47, 112, 112, 112, 112, 112, 112, 112, 112, 47, 56, 47, 56, 47, 56, 47, 56, 47, 80, 80, 80, 80, 80, 80, 80, 80, 47, 82, 78, 66, 81, 75, 66, 78, 82, 32, 119, 32, 75, 81, 107, 113, 32, 45, 32, 48, 32, 49]
theorem spec_outcome_initial : (Fen.read ofen_initial).map outcome = some (none) := by decide +kernel

end Owl.Props.C07
