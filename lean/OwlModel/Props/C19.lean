/-
C19  Unchecked internals never go out of bounds on any valid position.
Proved here: every table index computed from a square, cell, rights value or occupancy is in range, and the
unchecked square arithmetic of the move validator / make-move stays on the board. The clause "no valid position
has more than 256 semilegal moves" is stated here (`SemilegalCountBound`) and PROVED in Props/C19_bound.lean
(`semilegalCountBound`, `semilegal_count_le_256`) by kernel-checked LP-duality certificates (Lemmas/Bound).
-/
import OwlModel.Lemmas.Capture

namespace Owl.Props.C19
open Owl Owl.Impl Owl.Lemmas

/-- per-square bound of the magic index: offset + 2^(64 - shift) fits in the lookup table -/
def rookRangeCheck : Bool :=
  Sq.all.all fun s =>
    let shift := (tabGet Gen.rookShift s.val).toNat
    decide (shift ≤ 64) && decide ((tabGet Gen.rookOff s.val).toNat + 2 ^ (64 - shift) ≤ Gen.rookLookupLen)
def bishopRangeCheck : Bool :=
  Sq.all.all fun s =>
    let shift := (tabGet Gen.bishopShift s.val).toNat
    decide (shift ≤ 64) && decide ((tabGet Gen.bishopOff s.val).toNat + 2 ^ (64 - shift) ≤ Gen.bishopLookupLen)

theorem rook_range : rookRangeCheck = true := by decide +kernel
theorem bishop_range : bishopRangeCheck = true := by decide +kernel

theorem shr_lt (x : BB) (k : Nat) (hk : k ≤ 64) : (x >>> k).toNat < 2 ^ (64 - k) := by
  rw [BitVec.toNat_ushiftRight, Nat.shiftRight_eq_div_pow]
  have hx := x.isLt
  have : (2:Nat) ^ 64 = 2 ^ (64 - k) * 2 ^ k := by rw [← Nat.pow_add]; congr 1; omega
  rw [Nat.div_lt_iff_lt_mul (Nat.two_pow_pos k)]
  omega

/-- C19: the rook lookup index is inside `MAGIC_LOOKUP_ROOK` for every square and every occupancy -/
theorem rookIndex_lt (s : Sq) (occ : BB) : rookIndex s occ < Gen.rookLookupLen := by
  have h := (List.all_eq_true.mp rook_range) s (List.mem_finRange _)
  simp only [Bool.and_eq_true, decide_eq_true_eq] at h
  unfold rookIndex
  simp only
  have := shr_lt ((occ &&& tabGet Gen.rookMask s.val) * tabGet Gen.rookMagic s.val) _ h.1
  omega

theorem bishopIndex_lt (s : Sq) (occ : BB) : bishopIndex s occ < Gen.bishopLookupLen := by
  have h := (List.all_eq_true.mp bishop_range) s (List.mem_finRange _)
  simp only [Bool.and_eq_true, decide_eq_true_eq] at h
  unfold bishopIndex
  simp only
  have := shr_lt ((occ &&& tabGet Gen.bishopMask s.val) * tabGet Gen.bishopMagic s.val) _ h.1
  omega

/-- the packed leaper / between / Zobrist tables are indexed by values whose types bound them -/
theorem square_index_lt (s : Sq) : s.val < 64 := s.isLt
theorem cell_index_lt (c : Cell) : c.val < 13 := c.isLt
theorem rights_index_lt (r : Rights) : r.val < 16 := r.isLt
theorem zobrist_piece_index_lt (c : Cell) (s : Sq) : c.val * 64 + s.val < 13 * 64 := by
  have := c.isLt; have := s.isLt; omega

/-- `x` plus `d` stays on the board -/
def OnBoard (s : Sq) (d : Int) : Prop := 0 ≤ (s.val : Int) + d ∧ (s.val : Int) + d < 64

instance (s : Sq) (d : Int) : Decidable (OnBoard s d) := by unfold OnBoard; infer_instance

theorem addU_eq_of_onBoard (s : Sq) (d : Int) (h : OnBoard s d) : ((addU s d).val : Int) = s.val + d := by
  unfold addU; simp only; have := s.isLt; unfold OnBoard at h; omega

/-- the unchecked additions of `do_is_move_semilegal` / `do_make_move`, given the ranks well-formedness fixes -/
theorem double_step_site (s : Sq) (c : Color) (h : s.rank = doubleSrcRank c) : OnBoard s (forwardDelta c) := by
  revert h; cases c <;> revert s <;> decide
theorem ep_neighbour_sites (s : Sq) (c : Color) (h : s.rank = epSrcRank c) : OnBoard s 1 ∧ OnBoard s (-1) := by
  revert h; cases c <;> revert s <;> decide
theorem ep_forward_site (p : Sq) (c : Color) (h : p.rank = epSrcRank c) : OnBoard p (forwardDelta c) := by
  revert h; cases c <;> revert p <;> decide
theorem ep_taken_site (d : Sq) (c : Color) (h : d.rank = epDstRank c) : OnBoard d (-(forwardDelta c)) := by
  revert h; cases c <;> revert d <;> decide
theorem castle_sites (c : Color) : OnBoard (Sq.mk fileE (castlingRank c)) 1 ∧ OnBoard (Sq.mk fileE (castlingRank c)) (-1) := by
  cases c <;> decide

/-- in a board with `Shape` the recorded en-passant pawn is on the rank that makes those sites safe -/
theorem ep_mark_site (b : Board) (hs : Shape b) (p : Sq) (h : b.r.ep = some p) :
    OnBoard p (forwardDelta b.r.side) ∧ OnBoard p 1 ∧ OnBoard p (-1) := by
  obtain ⟨hr, _, _⟩ := hs.ep p h
  exact ⟨ep_forward_site p _ hr, (ep_neighbour_sites p _ hr).1, (ep_neighbour_sites p _ hr).2⟩

/-- the unproved clause, stated in full: no position accepted by validation has more semilegal moves than the
fixed-capacity move list can hold -/
def SemilegalCountBound : Prop :=
  ∀ (raw : RawBoard) (b : Board), validate raw = .ok b → (semilegalGen .all b).length ≤ Gen.moveListCap

end Owl.Props.C19
