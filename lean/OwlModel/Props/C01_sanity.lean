/-
C01 (sanity of the trusted statements): the rules layer `Spec` that every C01 theorem is stated against gives, in the
kernel, the published number of legal moves (perft depth 1, chessprogramming.org "Perft Results") for the initial position and
the five standard test positions (castling both ways, en passant, promotions with check, pins, discovered checks). These are
tests of the specification, labelled as tests: they make the universally quantified theorems non-vacuous and tie the
`Spec` text reader and move rules to facts that do not come from this repository or this framework.
-/
import OwlModel.Spec.Text

namespace Owl.Props.C01
open Owl Owl.Spec

/-- `rnbqkbnr/pppppppp/8/8/8/8/PPPPPPPP/RNBQKBNR w KQkq - 0 1` -/
def fen_initial : List Nat := [114, 110, 98, 113, 107, 98, 110, 114, 47, 112, 112, 112, 112, 112, 112, 112, 112, 47, 56, 47, 56, 47, 56, 47, 56, 47, 80, 80, 80, 80, 80, 80, 80, 80, 47, 82, 78, 66, 81, 75, 66, 78, 82, 32, 119, 32, 75, 81, 107, 113, 32, 45, 32, 48, 32, 49]
theorem spec_perft1_initial : (Fen.read fen_initial).map (fun p => (legalMoves p).length) = some 20 := by decide +kernel

/-- `r3k2r/p1ppqpb1/bn2pnp1/3PN3/1p2P3/2N2Q1p/PPPBBPPP/R3K2R w KQkq - 0 1` -/
def fen_kiwipete : List Nat := [114, 51, 107, 50, 114, 47, 112, 49, 112, 112, 113, 112, 98, 49, 47, 98, 110, 50, 112, 110, 112, 49, 47, 51, 80, 78, 51, 47, 49, 112, 50, 80, 51, 47, 50, 78, 50, 81, 49, 112, 47, 80, 80, 80, 66, 66, 80, 80, 80, 47, 82, 51, 75, 50, 82, 32, 119, 32, 75, 81, 107, 113, 32, 45, 32, 48, 32, 49]
theorem spec_perft1_kiwipete : (Fen.read fen_kiwipete).map (fun p => (legalMoves p).length) = some 48 := by decide +kernel

/-- `8/2p5/3p4/KP5r/1R3p1k/8/4P1P1/8 w - - 0 1` -/
def fen_pos3 : List Nat := [56, 47, 50, 112, 53, 47, 51, 112, 52, 47, 75, 80, 53, 114, 47, 49, 82, 51, 112, 49, 107, 47, 56, 47, 52, 80, 49, 80, 49, 47, 56, 32, 119, 32, 45, 32, 45, 32, 48, 32, 49]
theorem spec_perft1_pos3 : (Fen.read fen_pos3).map (fun p => (legalMoves p).length) = some 14 := by decide +kernel

/-- `r3k2r/Pppp1ppp/1b3nbN/nP6/BBP1P3/q4N2/Pp1P2PP/R2Q1RK1 w kq - 0 1` -/
def fen_pos4 : List Nat := [114, 51, 107, 50, 114, 47, 80, 112, 112, 112, 49, 112, 112, 112, 47, 49, 98, 51, 110, 98, 78, 47, 110, 80, 54, 47, 66, 66, 80, 49, 80, 51, 47, 113, 52, 78, 50, 47, 80, 112, 49, 80, 50, 80, 80, 47, 82, 50, 81, 49, 82, 75, 49, 32, 119, 32, 107, 113, 32, 45, 32, 48, 32, 49]
theorem spec_perft1_pos4 : (Fen.read fen_pos4).map (fun p => (legalMoves p).length) = some 6 := by decide +kernel

/-- `rnbq1k1r/pp1Pbppp/2p5/8/2B5/8/PPP1NnPP/RNBQK2R w KQ - 1 8` -/
def fen_pos5 : List Nat := [114, 110, 98, 113, 49, 107, 49, 114, 47, 112, 112, 49, 80, 98, 112, 112, 112, 47, 50, 112, 53, 47, 56, 47, 50, 66, 53, 47, 56, 47, 80, 80, 80, 49, 78, 110, 80, 80, 47, 82, 78, 66, 81, 75, 50, 82, 32, 119, 32, 75, 81, 32, 45, 32, 49, 32, 56]
theorem spec_perft1_pos5 : (Fen.read fen_pos5).map (fun p => (legalMoves p).length) = some 44 := by decide +kernel

/-- `r4rk1/1pp1qppp/p1np1n2/2b1p1B1/2B1P1b1/P1NP1N2/1PP1QPPP/R4RK1 w - - 0 10` -/
def fen_pos6 : List Nat := [114, 52, 114, 107, 49, 47, 49, 112, 112, 49, 113, 112, 112, 112, 47, 112, 49, 110, 112, 49, 110, 50, 47, 50, 98, 49, 112, 49, 66, 49, 47, 50, 66, 49, 80, 49, 98, 49, 47, 80, 49, 78, 80, 49, 78, 50, 47, 49, 80, 80, 49, 81, 80, 80, 80, 47, 82, 52, 82, 75, 49, 32, 119, 32, 45, 32, 45, 32, 48, 32, 49, 48]
theorem spec_perft1_pos6 : (Fen.read fen_pos6).map (fun p => (legalMoves p).length) = some 46 := by decide +kernel

end Owl.Props.C01
