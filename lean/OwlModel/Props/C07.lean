/-
C07  The outcome of a position is classified exactly.
`calcOutcome_eq`: on every valid position `Board::calc_outcome` returns exactly `Spec.outcome` of the position —
checkmate (won by the side not to move) iff in check with no legal move, stalemate iff not in check with no legal move,
otherwise insufficient material, then the 150 half-move limit, then the 100 half-move limit, otherwise nothing (that
order is the precedence), and never panics.  `hasLegalMoves_spec`: the early-exit "has a legal move" query is true
exactly when the legal move set (C01) is non-empty; it skips castling, which is sound by `king_step_legal`.
`insufficient_iff`, `calcDrawSimple_eq` (Lemmas/Insufficient): the bitboard material test is the rule "nothing but the
kings, or a single knight, or only bishops all on one square colour"; the light / dark masks are the rule's squares.
-/
import OwlModel.Props.C01
import OwlModel.Lemmas.Insufficient

namespace Owl.Props.C07
open Owl Owl.Impl Owl.Lemmas Owl.Props Owl.Props.C06

/-- the square next to the king's home square towards the given side -/
def stepSq (c : Color) : Side → Sq
  | .king => Sq.mk fileF (castlingRank c)
  | .queen => Sq.mk fileD (castlingRank c)

theorem castle_step_geom (c : Color) (sd : Side) : ∀ s y : Sq,
    (isBishopValid s (stepSq c sd) = true → (bishopStrict s (stepSq c sd)).has (Sq.mk fileE (castlingRank c)) = false)
    ∧ (isRookValid s (stepSq c sd) = true → (rookStrict s (stepSq c sd)).has (Sq.mk fileE (castlingRank c)) = true →
        isRookValid s (Sq.mk fileE (castlingRank c)) = true
        ∧ ((rookStrict s (Sq.mk fileE (castlingRank c))).has y = true →
            (rookStrict s (stepSq c sd)).has y = true ∧ y ≠ Sq.mk fileE (castlingRank c)))
    ∧ (kingAttack (Sq.mk fileE (castlingRank c))).has (stepSq c sd) = true
    ∧ Sq.mk fileE (castlingRank c) ≠ stepSq c sd := by
  cases c <;> cases sd <;> decide +kernel

/-- if the king stands unattacked on its home square next to an empty, unattacked square, stepping there is legal
(why `has_legal_moves` may skip castling) -/
theorem king_step_legal (b : Board) (hv : Valid b) (sd : Side)
    (hk : b.get (Sq.mk fileE (castlingRank b.r.side)) = Cell.mk b.r.side .king)
    (he : b.get (stepSq b.r.side sd) = Cell.empty)
    (h1 : isCellAttacked b (Sq.mk fileE (castlingRank b.r.side)) b.r.side.inv = false)
    (h2 : isCellAttacked b (stepSq b.r.side sd) b.r.side.inv = false) :
    let mv := mkMove b.r.side .simple .king (Sq.mk fileE (castlingRank b.r.side)) (stepSq b.r.side sd)
    mv.isWellFormed = true ∧ isSemilegal b mv = true ∧ isLegalUnchecked? b mv = some true := by
  intro mv
  have hb := hv.shape.cons
  obtain ⟨_, _, gk, gne⟩ := castle_step_geom b.r.side sd (Sq.mk fileE (castlingRank b.r.side)) (Sq.mk fileE (castlingRank b.r.side))
  have hsl : SL b mv := (sl_piece b .king (by decide) _ _).mpr ⟨hk, gk, by rw [he, empty_color]; simp⟩
  refine ⟨hsl.1, hsl.2, ?_⟩
  obtain ⟨k0, hk0, hu0⟩ := hv.checks.king b.r.side
  have hE : Sq.mk fileE (castlingRank b.r.side) = k0 := hu0 _ hk
  have huniq : ∀ t, b.get t = Cell.mk b.r.side .king → t = Sq.mk fileE (castlingRank b.r.side) :=
    fun t ht => (hu0 t ht).trans hE.symm
  rw [legal_unfold b hb mv _ hk huniq]
  congr 1
  -- the test: the destination is not attacked once the king has left its square
  unfold Checker.isLegal
  simp only [Pre.isLegalPre, mv, mkMove, if_true]
  rw [isAttacked_set]
  simp only [BitVec.and_allOnes, Bool.not_eq_true']
  cases hatt : (attackSet (fun p => b.piece2 b.r.side.inv p) (stepSq b.r.side sd) b.r.side.inv
      (b.all ^^^ BB.single (Sq.mk fileE (castlingRank b.r.side)))).nonEmpty
  · rfl
  · exfalso
    obtain ⟨s, hs⟩ := (nonEmpty_iff _).mp hatt
    have hF : ∀ s, (attackSet (b.piece2 b.r.side.inv) (stepSq b.r.side sd) b.r.side.inv b.all).has s = false := by
      intro s
      rw [isCellAttacked_set] at h2
      cases h : (attackSet (b.piece2 b.r.side.inv) (stepSq b.r.side sd) b.r.side.inv b.all).has s
      · rfl
      · have := (nonEmpty_iff _).mpr ⟨s, h⟩; rw [h2] at this; cases this
    have hEa : ∀ s, (attackSet (b.piece2 b.r.side.inv) (Sq.mk fileE (castlingRank b.r.side)) b.r.side.inv b.all).has s = false := by
      intro s
      rw [isCellAttacked_set] at h1
      cases h : (attackSet (b.piece2 b.r.side.inv) (Sq.mk fileE (castlingRank b.r.side)) b.r.side.inv b.all).has s
      · rfl
      · have := (nonEmpty_iff _).mpr ⟨s, h⟩; rw [h1] at this; cases this
    have h0 := hF s
    rw [attackSet_has] at hs h0
    simp only [Bool.or_eq_false_iff, Bool.and_eq_false_iff] at h0
    obtain ⟨⟨⟨⟨p1, p2⟩, p3⟩, p4⟩, p5⟩ := h0
    simp only [Bool.or_eq_true, Bool.and_eq_true] at hs
    obtain ⟨g1, g2, _, _⟩ := castle_step_geom b.r.side sd s s
    have hocc : ∀ x, x ≠ Sq.mk fileE (castlingRank b.r.side) →
        (b.all ^^^ BB.single (Sq.mk fileE (castlingRank b.r.side))).has x = b.all.has x := by
      intro x hx
      rw [BB.has_xor, BB.has_single]
      have : ¬ Sq.mk fileE (castlingRank b.r.side) = x := fun e => hx e.symm
      simp [this]
    rcases hs with (((h | h) | h) | h) | h
    · rcases p1 with q | q <;> rw [q] at h <;> simp at h
    · rcases p2 with q | q <;> rw [q] at h <;> simp at h
    · rcases p3 with q | q <;> rw [q] at h <;> simp at h
    · -- a diagonal slider: the vacated square is not on its line
      obtain ⟨ha, hp⟩ := h
      have hold : (bishopAttack (stepSq b.r.side sd) b.all).has s = false := by
        rcases p4 with q | q
        · exact q
        · rw [q.1, q.2] at hp; simp at hp
      rw [bishopAttack_has] at ha hold
      rw [Bool.and_eq_true] at ha
      rw [ha.1, Bool.true_and] at hold
      have : (bishopStrict s (stepSq b.r.side sd) &&& b.all).isEmpty = true := by
        rw [BB.isEmpty_iff]; intro x
        have := (BB.isEmpty_iff _).mp ha.2 x
        rw [BB.has_and] at this ⊢
        by_cases hx : x = Sq.mk fileE (castlingRank b.r.side)
        · rw [hx, g1 ha.1]; rfl
        · rw [hocc x hx] at this; exact this
      rw [this] at hold; cases hold
    · -- a line slider: it would have attacked the king's own square
      obtain ⟨ha, hp⟩ := h
      have hold : (rookAttack (stepSq b.r.side sd) b.all).has s = false := by
        rcases p5 with q | q
        · exact q
        · rw [q.1, q.2] at hp; simp at hp
      rw [rookAttack_has] at ha hold
      rw [Bool.and_eq_true] at ha
      rw [ha.1, Bool.true_and] at hold
      have hfree := (BB.isEmpty_iff _).mp ha.2
      have hEin : (rookStrict s (stepSq b.r.side sd)).has (Sq.mk fileE (castlingRank b.r.side)) = true := by
        cases hh : (rookStrict s (stepSq b.r.side sd)).has (Sq.mk fileE (castlingRank b.r.side))
        · exfalso
          have : (rookStrict s (stepSq b.r.side sd) &&& b.all).isEmpty = true := by
            rw [BB.isEmpty_iff]; intro x
            have := hfree x
            rw [BB.has_and] at this ⊢
            by_cases hx : x = Sq.mk fileE (castlingRank b.r.side)
            · rw [hx, hh]; rfl
            · rw [hocc x hx] at this; exact this
          rw [this] at hold; cases hold
        · rfl
      obtain ⟨gv, _⟩ := g2 ha.1 hEin
      have hattE : (rookAttack (Sq.mk fileE (castlingRank b.r.side)) b.all).has s = true := by
        rw [rookAttack_has, gv, Bool.true_and, BB.isEmpty_iff]
        intro y
        rw [BB.has_and]
        cases hy : (rookStrict s (Sq.mk fileE (castlingRank b.r.side))).has y
        · rfl
        · obtain ⟨g3, g4⟩ := ((castle_step_geom b.r.side sd s y).2.1 ha.1 hEin).2 hy
          have := hfree y
          rw [BB.has_and, g3, hocc y g4] at this
          simpa using this
      have := hEa s
      rw [attackSet_has, hattE] at this
      simp only [Bool.or_eq_false_iff, Bool.and_eq_false_iff, Bool.true_and] at this
      rw [this.2.1, this.2.2] at hp
      simp at hp

theorem genFor_mem (b : Board) (c : Color) (mv : Move) :
    mv ∈ genForHasLegalMoves b c ↔ mv ∈ genWith b c true true true false := by
  unfold genForHasLegalMoves genWith
  simp only [List.mem_append, Bool.or_self, if_true, Bool.false_eq_true, if_false, List.not_mem_nil, or_false, or_assoc]
  constructor
  · rintro (h | h | h | h | h | h) <;> simp [h]
  · rintro (h | h | h | h | h | h) <;> simp [h]

theorem inClass_noCastle (b : Board) (mv : Move) (h0 : mv.kind ≠ .null) (h1 : mv.kind ≠ .castleK) (h2 : mv.kind ≠ .castleQ) :
    inClass b mv true true true false = true := by
  unfold inClass
  cases hk : mv.kind <;> simp [hk] at h0 h1 h2 ⊢

theorem checker_exists (b : Board) (hv : Valid b) (k : Sq) (hk : b.get k = Cell.mk b.r.side .king)
    (hku : ∀ t, b.get t = Cell.mk b.r.side .king → t = k) :
    ∃ ck, defaultChecker? b = some ck ∧ ∀ mv, mv.isWellFormed = true → isSemilegal b mv = true →
      ck.isLegal mv = Checker.isLegal ⟨b, .nil, b.r.side.inv, k⟩ mv := by
  have hkp := kingPos_of b hv.shape.cons b.r.side k hk hku
  cases hd : defaultChecker? b with
  | none =>
    exfalso
    unfold defaultChecker? defaultPre? isCheck? mkChecker? at hd
    simp only [hkp] at hd
    cases hc : isCellAttacked b k b.r.side.inv <;> simp [hc] at hd
  | some ck =>
    refine ⟨ck, rfl, ?_⟩
    intro mv hwf hsl
    obtain ⟨ck', h1, h2⟩ := isLegal_default b mv hv hwf hsl k hk
    rw [hd] at h1; cases h1
    exact h2

/-- C07: "has a legal move" is true exactly when the legal move set is non-empty (castling is skipped by the
early-exit generator: when a castling is semilegal the king's first step is a legal move) -/
theorem hasLegalMoves_spec (b : Board) (hv : Valid b) :
    ∃ l, legalGen? .all b = some l ∧ hasLegalMoves? b = some (!l.isEmpty) := by
  obtain ⟨k, hk, hku⟩ := hv.checks.king b.r.side
  obtain ⟨ck, hck, hnil⟩ := checker_exists b hv k hk hku
  unfold legalGen? hasLegalMoves?
  rw [hck]
  refine ⟨_, rfl, ?_⟩
  simp only [Option.map_some, Option.some.injEq]
  have hlegal : ∀ mv, SL b mv → (ck.isLegal mv = true ↔ isLegalUnchecked? b mv = some true) := by
    intro mv hsl
    rw [legal_unfold b hv.shape.cons mv k hk hku, hnil mv hsl.1 hsl.2]
    constructor
    · intro h; rw [h]
    · intro h; exact Option.some.inj h
  cases hany : (genForHasLegalMoves b b.r.side).any ck.isLegal
  · -- no legal move among the scanned ones: then none at all
    symm
    simp only [Bool.not_eq_false', List.isEmpty_iff, List.filter_eq_nil_iff]
    intro mv hmem hleg
    have hnone : ∀ m ∈ genForHasLegalMoves b b.r.side, ck.isLegal m = false := by
      intro m hm
      cases h : ck.isLegal m
      · rfl
      · have : (genForHasLegalMoves b b.r.side).any ck.isLegal = true := List.any_eq_true.mpr ⟨m, hm, h⟩
        rw [hany] at this; cases this
    obtain ⟨hwf, hsl, _⟩ := (semilegalGen_iff b hv .all mv).mp hmem
    have hknull := (semilegal_base b mv hsl).1
    by_cases hcas : mv.kind = .castleK ∨ mv.kind = .castleQ
    · -- a castling: the king's first step is legal and is scanned
      obtain ⟨piece, hc, hmatch, hmv⟩ := sl_normal b mv ⟨hwf, hsl⟩
      have hp : piece = .king := matches_king hmatch hcas
      subst hp
      have hsl' : SL b mv := ⟨hwf, hsl⟩
      rw [hmv] at hsl'
      have key : ∀ sd : Side, mv.kind = (match sd with | .king => Kind.castleK | .queen => Kind.castleQ) → False := by
        intro sd hkind
        rw [hkind] at hsl'
        obtain ⟨g1, _, g3, _, _, g6, g7, g8⟩ := (sl_castle b sd mv.src mv.dst).mp hsl'
        rw [g1] at g3 g7
        have he : b.get (stepSq b.r.side sd) = Cell.empty := by
          apply empty_of_pass b hv.shape.cons _ g6
          cases sd
          · rw [(pass_masks b.r.side _).2]; simp [stepSq]
          · rw [(pass_masks b.r.side _).1]; simp [stepSq]
        have hstep : isCellAttacked b (stepSq b.r.side sd) b.r.side.inv = false := by
          cases sd <;> exact g8
        obtain ⟨s1, s2, s3⟩ := king_step_legal b hv sd g3 he g7 hstep
        have hin : mkMove b.r.side .simple .king (Sq.mk fileE (castlingRank b.r.side)) (stepSq b.r.side sd)
            ∈ genForHasLegalMoves b b.r.side := by
          rw [genFor_mem, mem_genWith_iff b hv]
          exact ⟨⟨s1, s2⟩, inClass_noCastle b _ (by simp [mkMove]) (by simp [mkMove]) (by simp [mkMove])⟩
        have := hnone _ hin
        rw [(hlegal _ ⟨s1, s2⟩).mpr s3] at this
        cases this
      rcases hcas with h | h
      · exact key .king h
      · exact key .queen h
    · have hin : mv ∈ genForHasLegalMoves b b.r.side := by
        rw [genFor_mem, mem_genWith_iff b hv]
        exact ⟨⟨hwf, hsl⟩, inClass_noCastle b mv hknull (fun e => hcas (Or.inl e)) (fun e => hcas (Or.inr e))⟩
      have := hnone mv hin
      rw [this] at hleg; cases hleg
  · obtain ⟨m, hm, hl⟩ := List.any_eq_true.mp hany
    rw [genFor_mem, mem_genWith_iff b hv] at hm
    have hmem : m ∈ (semilegalGen .all b).filter ck.isLegal := by
      rw [List.mem_filter, semilegalGen_iff b hv .all]
      exact ⟨⟨hm.1.1, hm.1.2, inClass_all b m (semilegal_base b m hm.1.2).1⟩, hl⟩
    symm
    simp only [Bool.not_eq_true', List.isEmpty_eq_false_iff_exists_mem]
    exact ⟨m, hmem⟩

theorem isCheck_spec (b : Board) (hv : Valid b) : isCheck? b = some (Spec.inCheck (abs b.r) b.r.side) := by
  obtain ⟨k, hk, hku⟩ := hv.checks.king b.r.side
  rw [isCheck_eq b hv.shape.cons]
  unfold Spec.inCheck
  rw [← kingPos_eq b hv.shape.cons, kingPos_of b hv.shape.cons _ k hk hku]
  simp only [Option.map_some, Option.any_some]

theorem legal_empty_iff (b : Board) (hv : Valid b) (l : List Move) (hl : legalGen? .all b = some l) :
    l.isEmpty = (Spec.legalMoves (abs b.r)).isEmpty := by
  obtain ⟨l', h1, _, h3⟩ := C01.legalGen_eq_rules b hv
  rw [hl] at h1; cases h1
  obtain ⟨l2, g1, _, g3⟩ := C01.legalGen_spec b hv .all
  rw [hl] at g1; cases g1
  cases hle : l.isEmpty
  · symm
    obtain ⟨mv, hmv⟩ := List.isEmpty_eq_false_iff_exists_mem.mp hle
    obtain ⟨hwf, hsl, _, _⟩ := (g3 mv).mp hmv
    obtain ⟨sm, _, hc, _⟩ := semilegal_abs b hv mv hwf hsl
    apply List.isEmpty_eq_false_iff_exists_mem.mpr
    exact ⟨sm, (h3 sm).mpr (by rw [hc]; exact hmv)⟩
  · symm
    rw [List.isEmpty_iff] at hle ⊢
    apply List.eq_nil_iff_forall_not_mem.mpr
    intro sm hsm
    have := (h3 sm).mp hsm
    rw [hle] at this; cases this

/-- C07: the outcome calculation classifies every valid position exactly as the rules do: checkmate (won by the side
not to move) iff in check with no legal move, stalemate iff not in check with no legal move, otherwise insufficient
material, then the 75-move (150 half-moves) limit, then the 50-move (100) limit, otherwise nothing — in that order of
precedence; and it never panics -/
theorem calcOutcome_eq (b : Board) (hv : Valid b) :
    Impl.calcOutcome? b = some ((Spec.outcome (abs b.r)).map ofSpec) := by
  obtain ⟨l, hl, hh⟩ := hasLegalMoves_spec b hv
  have hemp := legal_empty_iff b hv l hl
  unfold Impl.calcOutcome? Spec.outcome
  rw [hh, isCheck_spec b hv, hemp, abs_side]
  cases h1 : (Spec.legalMoves (abs b.r)).isEmpty
  · simp only [Bool.not_false, Bool.false_eq_true, if_false]
    rw [calcDrawSimple_draw b hv.shape.cons]
  · cases h2 : Spec.inCheck (abs b.r) b.r.side <;> simp [ofSpec]

/-- C07 (material): restated here so that the evidence lists it with this property -/
theorem insufficient_material_iff (b : Board) (hb : Consistent b) :
    isInsufficientMaterial b = Spec.insufficient (abs b.r) := insufficient_iff b hb

/-! non-vacuity: the initial position has legal moves and no outcome -/
example : Impl.calcOutcome? (buildBoard C04.initialRaw) = some none := by decide +kernel

end Owl.Props.C07
