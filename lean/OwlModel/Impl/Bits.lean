/-
Implementation model: the bit-twiddling loops of `Bitboard`.
rust: chess_base/src/bitboard.rs (deposit_bits, flipped_rank, flipped_file, Iter::next, len)
Modelled std pieces: `u64::swap_bytes`, `reverse_bits`, `trailing_zeros`, `count_ones`, `wrapping_neg`.
-/
import OwlModel.Basic

namespace Owl.Impl
open Owl

/-- `u64::swap_bytes`: byte i ↦ byte 7 - i -/
def swapBytes (b : BB) : BB :=
  (List.range 8).foldl (fun acc i => acc ||| (((b >>> (8 * i)) &&& 0xff#64) <<< (8 * (7 - i)))) 0#64

/-- `u64::reverse_bits`: bit i ↦ bit 63 - i -/
def reverseBits (b : BB) : BB :=
  (List.range 64).foldl (fun acc i => if b.getLsbD i then acc ||| ((1#64) <<< (63 - i)) else acc) 0#64

/-- `Bitboard::flipped_rank` -/
def flippedRank (b : BB) : BB := swapBytes b
/-- `Bitboard::flipped_file` -/
def flippedFile (b : BB) : BB := swapBytes (reverseBits b)

/-- `u64::trailing_zeros` for a non-zero word -/
def trailingZeros (x : BB) : Nat := ((List.range 64).find? fun i => x.getLsbD i).getD 64

/-- `Iter::next` unrolled: `bit = trailing_zeros; x &= x - 1` -/
def bbIterLoop : Nat → BB → List Sq
  | 0, _ => []
  | fuel+1, x =>
    if x = 0#64 then []
    else
      let bit := trailingZeros x
      (if h : bit < 64 then [(⟨bit, h⟩ : Sq)] else []) ++ bbIterLoop fuel (x &&& (x - 1#64))

/-- `Bitboard::into_iter().collect()` -/
def bbIter (b : BB) : List Sq := bbIterLoop 64 b

/-- `Bitboard::deposit_bits` -/
def depositLoop : Nat → BB → BB → BB → BB
  | 0, _, _, res => res
  | fuel+1, msk, x, res =>
    if msk = 0#64 then res
    else
      let bit := msk &&& (0#64 - msk)
      let res := if (x &&& 1#64) ≠ 0#64 then res ||| bit else res
      depositLoop fuel (msk ^^^ bit) (x >>> 1) res

def depositBits (mask x : BB) : BB := depositLoop 64 mask x 0#64

/-- `count_ones` -/
def popCount (b : BB) : Nat := ((List.range 64).filter fun i => b.getLsbD i).length

end Owl.Impl
