/-
Implementation model: RawBoard, Board, Zobrist hash, validation gate, attack queries.
rust: chess/src/board.rs (RawBoard, Board, TryFrom<RawBoard>, zobrist_hash, king_pos, is_check, …),
      chess/src/zobrist.rs, chess/src/movegen.rs (do_is_cell_attacked, do_cell_attackers)
-/
import OwlModel.Impl.Attack
import OwlModel.Gen.Zobrist

namespace Owl.Impl
open Owl

/-- `RawBoard` (public fields) -/
structure RawBoard where
  cells : Tab 64 Cell
  side : Color
  castling : Rights
  ep : Option Sq
  mc : Nat          -- u16 move_counter
  mn : Nat          -- u16 move_number
  deriving DecidableEq

/-- `Board` -/
structure Board where
  r : RawBoard
  hash : BB
  white : BB
  black : BB
  all : BB
  pieces : Tab 13 BB
  deriving DecidableEq

namespace RawBoard
def get (r : RawBoard) (s : Sq) : Cell := r.cells.get s
def put (r : RawBoard) (s : Sq) (c : Cell) : RawBoard := { r with cells := r.cells.put s c }
def empty : RawBoard :=
  { cells := Tab.fill Cell.empty, side := .white, castling := 0, ep := none, mc := 0, mn := 1 }
end RawBoard

-- zobrist.rs
def zPieces (c : Cell) (s : Sq) : BB := tabGet Gen.zPieces (c.val * 64 + s.val)
def zEnpassant (s : Sq) : BB := tabGet Gen.zEnpassant s.val
def zCastling (r : Rights) : BB := tabGet Gen.zCastling r.val
def zMoveSide : BB := BB.ofNat Gen.zMoveSide
def zCastlingDelta (c : Color) (s : Side) : BB :=
  match s with
  | .queen => tabGet Gen.zCastleQ c.idx
  | .king => tabGet Gen.zCastleK c.idx

-- CastlingRights
def rightsIndex (c : Color) (s : Side) : Nat := c.idx * 2 + (match s with | .queen => 0 | .king => 1)
def rHas (r : Rights) (c : Color) (s : Side) : Bool := r.val.testBit (rightsIndex c s)
def rHasColor (r : Rights) (c : Color) : Bool := (r.val &&& (3 <<< (c.idx * 2))) != 0
def rWithout (r : Rights) (c : Color) (s : Side) : Rights :=
  ⟨r.val &&& (15 - (1 <<< rightsIndex c s)), by
    have := r.isLt
    exact Nat.lt_of_le_of_lt Nat.and_le_left this⟩
def rWith (r : Rights) (c : Color) (s : Side) : Rights :=
  ⟨(r.val ||| (1 <<< rightsIndex c s)) % 16, Nat.mod_lt _ (by decide)⟩
def rWithoutColor (r : Rights) (c : Color) : Rights := rWithout (rWithout r c .king) c .queen

/-- `RawBoard::zobrist_hash` (from scratch) -/
def RawBoard.zobrist (r : RawBoard) : BB :=
  let h0 : BB := if r.side = .white then zMoveSide else 0
  let h1 := match r.ep with | some p => h0 ^^^ zEnpassant p | none => h0
  let h2 := h1 ^^^ zCastling r.castling
  Sq.all.foldl (fun h s => if (r.get s).isOcc then h ^^^ zPieces (r.get s) s else h) h2

/-- `RawBoard::ep_dest` -/
def RawBoard.epDest (r : RawBoard) : Option Sq :=
  match r.ep with
  | none => none
  | some p => some (Sq.mk p.file (epDstRank r.side))

namespace Board
def get (b : Board) (s : Sq) : Cell := b.r.get s
def color (b : Board) (c : Color) : BB := if c = .white then b.white else b.black
def piece (b : Board) (c : Cell) : BB := b.pieces.get c
def piece2 (b : Board) (c : Color) (p : Piece) : BB := b.pieces.get (Cell.mk c p)
def pieceDiag (b : Board) (c : Color) : BB := b.piece2 c .bishop ||| b.piece2 c .queen
def pieceLine (b : Board) (c : Color) : BB := b.piece2 c .rook ||| b.piece2 c .queen
/-- `Board::king_pos`: `.into_iter().next().unwrap()` — `none` models the panic -/
def kingPos? (b : Board) (c : Color) : Option Sq := (b.piece2 c .king).first?
end Board

/-- `movegen::do_is_cell_attacked::<C>` -/
def isCellAttacked (b : Board) (s : Sq) (c : Color) : Bool :=
  let pawnAttacks := pawnAttack c.inv s
  if (b.piece2 c .pawn &&& pawnAttacks).nonEmpty
      || (b.piece2 c .king &&& kingAttack s).nonEmpty
      || (b.piece2 c .knight &&& knightAttack s).nonEmpty then true
  else (bishopAttack s b.all &&& b.pieceDiag c).nonEmpty
      || (rookAttack s b.all &&& b.pieceLine c).nonEmpty

/-- `movegen::do_cell_attackers::<C>` -/
def cellAttackers (b : Board) (s : Sq) (c : Color) : BB :=
  let pawnAttacks := pawnAttack c.inv s
  (b.piece2 c .pawn &&& pawnAttacks)
    ||| (b.piece2 c .king &&& kingAttack s)
    ||| (b.piece2 c .knight &&& knightAttack s)
    ||| (bishopAttack s b.all &&& b.pieceDiag c)
    ||| (rookAttack s b.all &&& b.pieceLine c)

/-- `Board::is_opponent_king_attacked`; `none` = `king_pos` would panic -/
def isOpponentKingAttacked? (b : Board) : Option Bool :=
  match b.kingPos? b.r.side.inv with
  | none => none
  | some k => some (isCellAttacked b k b.r.side)

/-- `Board::is_check` -/
def isCheck? (b : Board) : Option Bool :=
  match b.kingPos? b.r.side with
  | none => none
  | some k => some (isCellAttacked b k b.r.side.inv)

/-- `Board::checkers` -/
def checkers? (b : Board) : Option BB :=
  match b.kingPos? b.r.side with
  | none => none
  | some k => some (cellAttackers b k b.r.side.inv)

inductive ValidateError
  | invalidEnpassant (s : Sq)
  | tooManyPieces (c : Color)
  | noKing (c : Color)
  | tooManyKings (c : Color)
  | invalidPawn (s : Sq)
  | opponentKingAttacked
  deriving DecidableEq, Repr

/-- ep normalisation step of `TryFrom<RawBoard>`; `Except`-like: error, or the new raw -/
def normaliseEp (raw : RawBoard) : Res ValidateError RawBoard :=
  match raw.ep with
  | none => .ok raw
  | some p =>
    if p.rank ≠ epSrcRank raw.side then .err (.invalidEnpassant p)
    else
      -- `p.add(forward)` is `Coord::add`, which asserts the range
      match p.add? (forwardDelta raw.side) with
      | none => .trap "Coord::add out of range in TryFrom"
      | some pp =>
        if raw.get p ≠ Cell.mk raw.side.inv .pawn || raw.get pp ≠ Cell.empty then
          .ok { raw with ep := none }
        else .ok raw

def fileA : Fin 8 := 0
def fileC : Fin 8 := 2
def fileD : Fin 8 := 3
def fileE : Fin 8 := 4
def fileF : Fin 8 := 5
def fileG : Fin 8 := 6
def fileH : Fin 8 := 7

/-- castling normalisation for one colour -/
def normaliseCastlingColor (raw : RawBoard) (color : Color) : RawBoard :=
  let rank := castlingRank color
  let c0 := raw.castling
  let c1 := if raw.get (Sq.mk fileE rank) ≠ Cell.mk color .king then
              rWithout (rWithout c0 color .queen) color .king else c0
  let c2 := if raw.get (Sq.mk fileA rank) ≠ Cell.mk color .rook then rWithout c1 color .queen else c1
  let c3 := if raw.get (Sq.mk fileH rank) ≠ Cell.mk color .rook then rWithout c2 color .king else c2
  { raw with castling := c3 }

def normaliseCastling (raw : RawBoard) : RawBoard :=
  normaliseCastlingColor (normaliseCastlingColor raw .white) .black

/-- occupancy sets rebuilt from the squares (the loop in `TryFrom<RawBoard>`) -/
def colorSet (cells : Tab 64 Cell) (c : Color) : BB :=
  Sq.all.foldl (fun acc s => if (cells.get s).color = some c then acc ||| BB.single s else acc) 0#64
def pieceSet (cells : Tab 64 Cell) (x : Cell) : BB :=
  if x.val = 0 then 0#64
  else Sq.all.foldl (fun acc s => if cells.get s = x then acc ||| BB.single s else acc) 0#64

def buildBoard (raw : RawBoard) : Board :=
  let white := colorSet raw.cells .white
  let black := colorSet raw.cells .black
  { r := raw, hash := raw.zobrist, white := white, black := black, all := white ||| black,
    pieces := Tab.ofFn fun x => pieceSet raw.cells x }

/-- the checks of `TryFrom<RawBoard>` on the rebuilt board: returns the board itself or the reason -/
def checkBoard (b : Board) : Res ValidateError Board :=
  if Gen.tooManyW b.white.len then .err (.tooManyPieces .white)
  else if Gen.tooManyB b.black.len then .err (.tooManyPieces .black)
  else if (b.piece2 .white .king).isEmpty then .err (.noKing .white)
  else if (b.piece2 .black .king).isEmpty then .err (.noKing .black)
  else if Gen.tooManyKingsW (b.piece2 .white .king).len then .err (.tooManyKings .white)
  else if Gen.tooManyKingsB (b.piece2 .black .king).len then .err (.tooManyKings .black)
  else
    match ((b.piece2 .white .pawn ||| b.piece2 .black .pawn) &&& BB.ofNat Gen.badPawnPoses).first? with
    | some p => .err (.invalidPawn p)
    | none =>
      match isOpponentKingAttacked? b with
      | none => .trap "king_pos unwrap in TryFrom"
      | some true => .err .opponentKingAttacked
      | some false => .ok b

/-- `impl TryFrom<RawBoard> for Board` -/
def validate (raw0 : RawBoard) : Res ValidateError Board :=
  match normaliseEp raw0 with
  | .err e => .err e
  | .trap w => .trap w
  | .ok raw1 => checkBoard (buildBoard (normaliseCastling raw1))

end Owl.Impl
