/-
Implementation model: Move, well-formedness, semilegality, make / unmake.
rust: chess/src/moves/base.rs (Move, MoveKind, is_well_formed, do_is_move_semilegal, update_castling,
      do_make_move, do_unmake_move and their four helpers, RawUndo)
The counters follow the repaired code (`saturating_add`, `RawUndo.move_number`), see DESIGN §7 D4.
-/
import OwlModel.Impl.Board

namespace Owl.Impl
open Owl

/-- `base::Move` -/
structure Move where
  kind : Kind
  cell : Cell
  src : Sq
  dst : Sq
  deriving DecidableEq, Repr, Inhabited

def Move.null : Move := ⟨.null, 0, 0, 0⟩

/-- `RawUndo` (with the move number, as in the repaired code) -/
structure RawUndo where
  hash : BB
  dstCell : Cell
  castling : Rights
  ep : Option Sq
  mc : Nat
  mn : Nat
  deriving DecidableEq

/-- `Coord::add_unchecked`: `Coord((index + delta) as u8)`. The sites are recorded separately
(`*_sites`) and proved in range; inside the range this is ordinary addition. -/
def addU (s : Sq) (d : Int) : Sq :=
  ⟨(((s.val : Int) + d) % 256).toNat % 64, Nat.mod_lt _ (by decide)⟩

/-- `MoveKind::matches_piece` -/
def _root_.Owl.Kind.matchesPiece (k : Kind) (p : Piece) : Bool :=
  match k with
  | .simple => true
  | .double | .ep | .promN | .promB | .promR | .promQ => p == .pawn
  | .castleK | .castleQ => p == .king
  | .null => false

def absDiff (a b : Nat) : Nat := if a ≤ b then b - a else a - b

/-- `Move::is_well_formed` -/
def Move.isWellFormed (m : Move) : Bool :=
  if m.kind = .null then decide (m = Move.null)
  else if m.cell = Cell.empty || m.src = m.dst then false
  else
    match m.cell.color, m.cell.piece with
    | some color, some piece =>
      if !m.kind.matchesPiece piece then false
      else
        match m.kind with
        | .simple =>
          match piece with
          | .pawn =>
            if absDiff m.src.file.val m.dst.file.val > 1
                || m.src.rank.val = 7 || m.src.rank.val = 0
                || m.dst.rank.val = 7 || m.dst.rank.val = 0 then false
            else
              match color with
              | .white => m.src.rank.val = m.dst.rank.val + 1
              | .black => m.src.rank.val + 1 = m.dst.rank.val
          | .king => (kingAttack m.src).has m.dst
          | .knight => (knightAttack m.src).has m.dst
          | .bishop => isBishopValid m.src m.dst
          | .rook => isRookValid m.src m.dst
          | .queen => isBishopValid m.src m.dst || isRookValid m.src m.dst
        | .castleK =>
          let rank := castlingRank color
          m.src = Sq.mk fileE rank && m.dst = Sq.mk fileG rank
        | .castleQ =>
          let rank := castlingRank color
          m.src = Sq.mk fileE rank && m.dst = Sq.mk fileC rank
        | .double =>
          m.src.file = m.dst.file && m.src.rank = doubleSrcRank color
            && m.dst.rank = doubleDstRank color
        | .ep =>
          m.src.rank = epSrcRank color && m.dst.rank = epDstRank color
            && absDiff m.src.file.val m.dst.file.val = 1
        | .promN | .promB | .promR | .promQ =>
          m.src.rank = promoteSrcRank color && m.dst.rank = promoteDstRank color
            && absDiff m.src.file.val m.dst.file.val ≤ 1
        | .null => false
    | _, _ => false

/-- `Move::new` -/
def Move.new? (k : Kind) (c : Cell) (s d : Sq) : Option Move :=
  let m : Move := ⟨k, c, s, d⟩
  if m.isWellFormed then some m else none

/-- `Move::from_castling` -/
def Move.fromCastling (c : Color) (s : Side) : Move :=
  let rank := castlingRank c
  match s with
  | .king => ⟨.castleK, Cell.mk c .king, Sq.mk fileE rank, Sq.mk fileG rank⟩
  | .queen => ⟨.castleQ, Cell.mk c .king, Sq.mk fileE rank, Sq.mk fileC rank⟩

/-- `is_queen_semilegal` -/
def isQueenSemilegal (src dst : Sq) (all : BB) : Bool :=
  if isBishopValid src dst then (bishopStrict src dst &&& all).isEmpty
  else (rookStrict src dst &&& all).isEmpty

/-- `do_is_move_semilegal::<C>` with `C::COLOR = b.r.side` (assumes a well-formed move) -/
def isSemilegal (b : Board) (mv : Move) : Bool :=
  let c := b.r.side
  let dstCell := b.get mv.dst
  if mv.kind = .null || b.get mv.src ≠ mv.cell || mv.cell.color ≠ some c
      || dstCell.color = some c then false
  else
    match mv.cell.piece with
    | none => false   -- unreachable: cell has a colour
    | some .pawn =>
      match mv.kind with
      | .double =>
        let tmp := b.get (addU mv.src (forwardDelta c))
        tmp = Cell.empty && dstCell = Cell.empty
      | .ep =>
        match b.r.ep with
        | some p =>
          (p = addU mv.src 1 || p = addU mv.src (-1)) && mv.dst = addU p (forwardDelta c)
        | none => false
      | _ => (decide (mv.dst.file = mv.src.file)) == (decide (dstCell = Cell.empty))
    | some .king =>
      match mv.kind with
      | .castleK =>
        rHas b.r.castling c .king
          && (b.all &&& castlingPass c .king).isEmpty
          && !isCellAttacked b mv.src c.inv
          && !isCellAttacked b (addU mv.src 1) c.inv
      | .castleQ =>
        rHas b.r.castling c .queen
          && (b.all &&& castlingPass c .queen).isEmpty
          && !isCellAttacked b mv.src c.inv
          && !isCellAttacked b (addU mv.src (-1)) c.inv
      | _ => true
    | some .knight => true
    | some .bishop => (bishopStrict mv.src mv.dst &&& b.all).isEmpty
    | some .rook => (rookStrict mv.src mv.dst &&& b.all).isEmpty
    | some .queen => isQueenSemilegal mv.src mv.dst b.all

namespace Board
def setColor (b : Board) (c : Color) (v : BB) : Board :=
  if c = .white then { b with white := v } else { b with black := v }
def xorColor (b : Board) (c : Color) (v : BB) : Board := b.setColor c (b.color c ^^^ v)
def andNotColor (b : Board) (c : Color) (v : BB) : Board := b.setColor c (b.color c &&& ~~~ v)
def orColor (b : Board) (c : Color) (v : BB) : Board := b.setColor c (b.color c ||| v)
def xorPiece (b : Board) (x : Cell) (v : BB) : Board :=
  { b with pieces := b.pieces.put x (b.pieces.get x ^^^ v) }
def andNotPiece (b : Board) (x : Cell) (v : BB) : Board :=
  { b with pieces := b.pieces.put x (b.pieces.get x &&& ~~~ v) }
def orPiece (b : Board) (x : Cell) (v : BB) : Board :=
  { b with pieces := b.pieces.put x (b.pieces.get x ||| v) }
def putCell (b : Board) (s : Sq) (x : Cell) : Board := { b with r := b.r.put s x }
def xorHash (b : Board) (h : BB) : Board := { b with hash := b.hash ^^^ h }
def setCastling (b : Board) (r : Rights) : Board := { b with r := { b.r with castling := r } }
def setEp (b : Board) (e : Option Sq) : Board := { b with r := { b.r with ep := e } }
/-- counters and side to move after a move -/
def setTurn (b : Board) (mc : Nat) (side : Color) (mn : Nat) : Board :=
  { b with r := { b.r with mc := mc, side := side, mn := mn } }
/-- clearing of the en-passant mark at the start of `do_make_move` -/
def clearEp (b : Board) : Board :=
  match b.r.ep with
  | some p => (b.xorHash (zEnpassant p)).setEp none
  | none => b
/-- `b.all = b.white | b.black` -/
def refreshAll (b : Board) : Board := { b with all := b.white ||| b.black }
/-- `if dst_cell.is_occupied() { color |= dst; piece(dst_cell) |= dst }` of `do_unmake_move` -/
def restoreCaptured (b : Board) (c : Color) (x : Cell) (v : BB) : Board :=
  if x.isOcc then (b.orColor c v).orPiece x v else b
/-- the field restores at the end of `do_unmake_move` -/
def restore (b : Board) (hash : BB) (castling : Rights) (ep : Option Sq) (mc : Nat) (side : Color) (mn : Nat) : Board :=
  { b with hash := hash, r := { b.r with castling := castling, ep := ep, mc := mc, side := side, mn := mn } }
end Board

/-- the loop of `update_castling`: drop every right one of whose home squares changed -/
def castlingAfter (r : Rights) (change : BB) : Rights :=
  [(Color.white, Side.queen), (.white, .king), (.black, .queen), (.black, .king)].foldl
    (fun r cs => if (change &&& castlingSrcs cs.1 cs.2).nonEmpty then rWithout r cs.1 cs.2 else r) r

/-- `update_castling` -/
def updateCastling (b : Board) (change : BB) : Board :=
  if (change &&& castlingAllSrcs).isEmpty then b
  else if castlingAfter b.r.castling change ≠ b.r.castling then
    ((b.xorHash (zCastling b.r.castling)).setCastling (castlingAfter b.r.castling change)).xorHash
      (zCastling (castlingAfter b.r.castling change))
  else b

/-- `do_make_pawn_double::<C>` -/
def makePawnDouble (c : Color) (b : Board) (mv : Move) (change : BB) (inv : Bool) : Board :=
  let pawn := Cell.mk c .pawn
  let b := if inv then (b.putCell mv.src pawn).putCell mv.dst Cell.empty
           else ((b.putCell mv.src Cell.empty).putCell mv.dst pawn).xorHash
                  (zPieces pawn mv.src ^^^ zPieces pawn mv.dst)
  let b := b.xorColor c change
  let b := b.xorPiece pawn change
  if !inv then (b.setEp (some mv.dst)).xorHash (zEnpassant mv.dst) else b

/-- `do_make_enpassant::<C>` -/
def makeEnpassant (c : Color) (b : Board) (mv : Move) (change : BB) (inv : Bool) : Board :=
  let takenPos := addU mv.dst (-(forwardDelta c))
  let taken := BB.single takenPos
  let ourPawn := Cell.mk c .pawn
  let theirPawn := Cell.mk c.inv .pawn
  let b := if inv then ((b.putCell mv.src ourPawn).putCell mv.dst Cell.empty).putCell takenPos theirPawn
           else (((b.putCell mv.src Cell.empty).putCell mv.dst ourPawn).putCell takenPos Cell.empty).xorHash
                  (zPieces ourPawn mv.src ^^^ zPieces ourPawn mv.dst ^^^ zPieces theirPawn takenPos)
  let b := b.xorColor c change
  let b := b.xorPiece ourPawn change
  let b := b.xorColor c.inv taken
  b.xorPiece theirPawn taken

/-- `do_make_castling_kingside::<C>` -/
def makeCastlingK (c : Color) (b : Board) (inv : Bool) : Board :=
  let king := Cell.mk c .king
  let rook := Cell.mk c .rook
  let rank := castlingRank c
  let b := if inv then
      (((b.putCell (Sq.mk fileE rank) king).putCell (Sq.mk fileF rank) Cell.empty).putCell
        (Sq.mk fileG rank) Cell.empty).putCell (Sq.mk fileH rank) rook
    else
      ((((b.putCell (Sq.mk fileE rank) Cell.empty).putCell (Sq.mk fileF rank) rook).putCell
        (Sq.mk fileG rank) king).putCell (Sq.mk fileH rank) Cell.empty).xorHash (zCastlingDelta c .king)
  let off := genericOffset c
  let b := b.xorColor c (BB.ofNat (Gen.ksColorMask <<< off))
  let b := b.xorPiece rook (BB.ofNat (Gen.ksRookMask <<< off))
  let b := b.xorPiece king (BB.ofNat (Gen.ksKingMask <<< off))
  if !inv then
    let b := b.xorHash (zCastling b.r.castling)
    let b := b.setCastling (rWithoutColor b.r.castling c)
    b.xorHash (zCastling b.r.castling)
  else b

/-- `do_make_castling_queenside::<C>` -/
def makeCastlingQ (c : Color) (b : Board) (inv : Bool) : Board :=
  let king := Cell.mk c .king
  let rook := Cell.mk c .rook
  let rank := castlingRank c
  let b := if inv then
      (((b.putCell (Sq.mk fileA rank) rook).putCell (Sq.mk fileC rank) Cell.empty).putCell
        (Sq.mk fileD rank) Cell.empty).putCell (Sq.mk fileE rank) king
    else
      ((((b.putCell (Sq.mk fileA rank) Cell.empty).putCell (Sq.mk fileC rank) king).putCell
        (Sq.mk fileD rank) rook).putCell (Sq.mk fileE rank) Cell.empty).xorHash (zCastlingDelta c .queen)
  let off := genericOffset c
  let b := b.xorColor c (BB.ofNat (Gen.qsColorMask <<< off))
  let b := b.xorPiece rook (BB.ofNat (Gen.qsRookMask <<< off))
  let b := b.xorPiece king (BB.ofNat (Gen.qsKingMask <<< off))
  if !inv then
    let b := b.xorHash (zCastling b.r.castling)
    let b := b.setCastling (rWithoutColor b.r.castling c)
    b.xorHash (zCastling b.r.castling)
  else b

def satInc (n : Nat) : Nat := if n ≥ 65535 then 65535 else n + 1

/-- the `match mv.kind` of `do_make_move::<C>`; `b` has its en-passant mark already cleared,
`dstCell` was read before any modification -/
def makeBody (c : Color) (b : Board) (mv : Move) (dstCell : Cell) : Board :=
  let srcCell := mv.cell
  let src := BB.single mv.src
  let dst := BB.single mv.dst
  let change := src ||| dst
  let pawn := Cell.mk c .pawn
  match mv.kind with
  | .simple =>
    let b := (b.putCell mv.src Cell.empty).putCell mv.dst srcCell
    let b := b.xorHash (zPieces srcCell mv.src ^^^ zPieces srcCell mv.dst ^^^ zPieces dstCell mv.dst)
    let b := b.xorColor c change
    let b := b.xorPiece srcCell change
    let b := b.andNotColor c.inv dst
    let b := b.andNotPiece dstCell dst
    if srcCell ≠ pawn then updateCastling b change else b
  | .double => makePawnDouble c b mv change false
  | .promN | .promB | .promR | .promQ =>
    let promote := Cell.mk c (mv.kind.promote.getD .queen)
    let b := (b.putCell mv.src Cell.empty).putCell mv.dst promote
    let b := b.xorHash (zPieces srcCell mv.src ^^^ zPieces promote mv.dst ^^^ zPieces dstCell mv.dst)
    let b := b.xorColor c change
    let b := b.xorPiece pawn src
    let b := b.xorPiece promote dst
    let b := b.andNotColor c.inv dst
    let b := b.andNotPiece dstCell dst
    updateCastling b change
  | .castleK => makeCastlingK c b false
  | .castleQ => makeCastlingQ c b false
  | .null => b
  | .ep => makeEnpassant c b mv change false

/-- `do_make_move::<C>` with `C::COLOR = b.r.side` (`make_move_unchecked`).
The counters are read from the board before the move (nothing in between writes them). -/
def makeMove (b0 : Board) (mv : Move) : Board × RawUndo :=
  let c := b0.r.side
  let dstCell := b0.get mv.dst
  let undo : RawUndo :=
    { hash := b0.hash, dstCell := dstCell, castling := b0.r.castling, ep := b0.r.ep,
      mc := b0.r.mc, mn := b0.r.mn }
  let b := makeBody c b0.clearEp mv dstCell
  let mc' := if dstCell ≠ Cell.empty || mv.cell = Cell.mk c .pawn then 0 else satInc b0.r.mc
  let mn' := if c = .black then satInc b0.r.mn else b0.r.mn
  (((b.setTurn mc' c.inv mn').xorHash zMoveSide).refreshAll, undo)

/-- the `match mv.kind` of `do_unmake_move::<C>`; `srcCell = b.get(mv.dst)` and `dstCell = u.dst_cell`
were read before any modification -/
def unmakeBody (c : Color) (b : Board) (mv : Move) (srcCell dstCell : Cell) : Board :=
  let src := BB.single mv.src
  let dst := BB.single mv.dst
  let change := src ||| dst
  match mv.kind with
  | .simple =>
    let b := (b.putCell mv.src srcCell).putCell mv.dst dstCell
    let b := b.xorColor c change
    let b := b.xorPiece srcCell change
    b.restoreCaptured c.inv dstCell dst
  | .double => makePawnDouble c b mv change true
  | .promN | .promB | .promR | .promQ =>
    let pawn := Cell.mk c .pawn
    let b := (b.putCell mv.src pawn).putCell mv.dst dstCell
    let b := b.xorColor c change
    let b := b.xorPiece pawn src
    let b := b.xorPiece srcCell dst
    b.restoreCaptured c.inv dstCell dst
  | .castleK => makeCastlingK c b true
  | .castleQ => makeCastlingQ c b true
  | .null => b
  | .ep => makeEnpassant c b mv change true

/-- `do_unmake_move::<C>` with `C::COLOR = b.r.side.inv` (`unmake_move_unchecked`) -/
def unmakeMove (b : Board) (mv : Move) (u : RawUndo) : Board :=
  let c := b.r.side.inv
  ((unmakeBody c b mv (b.get mv.dst) u.dstCell).restore u.hash u.castling u.ep u.mc c u.mn).refreshAll

end Owl.Impl
