/-
Implementation model: SAN parsing, resolution against a board, and formatting; `Make` impls.
rust: chess/src/moves/san.rs (Data, Move, AmbigDetector, AmbigSearcher, FromStr, into_move, from_move, do_fmt),
      chess/src/moves/make.rs (Make for Move, uci::Move, san::Move, Uci<S>, San<S>, TryUnchecked)
`san::Data::from_str` follows the repaired code (`saturating_sub`, `from_utf8` failure → `Syntax`), DESIGN §7 D3.
-/
import OwlModel.Impl.Text

namespace Owl.Impl
open Owl

/-- `san::Data` -/
inductive SanData
  | uci (u : UciMove)
  | castling (s : Side)
  | pawnMove (dst : Sq) (promote : Option Piece)
  | pawnCapture (src : Fin 8) (dst : Sq) (promote : Option Piece)
  | pawnCaptureShort (src dst : Fin 8) (promote : Option Piece)
  | simple (piece : Piece) (file : Option (Fin 8)) (rank : Option (Fin 8)) (isCapture : Bool) (dst : Sq)
  deriving DecidableEq, Repr

inductive CheckMark | single | double | checkmate
  deriving DecidableEq, Repr

/-- `san::Move` -/
structure SanMove where
  data : SanData
  check : Option CheckMark
  deriving DecidableEq, Repr

inductive SanRawErr
  | emptyString | invalidDst (e : CoordErr) | nonPawnMoveTooLong | pawnMoveTooShort | pawnMoveTooLong | syntax
  deriving DecidableEq, Repr

inductive SanIntoErr
  | create | validate (e : MoveValidateError) | captureExpected | notFound | ambiguity (a b : Move)
  deriving DecidableEq, Repr

inductive SanErr | parse (e : SanRawErr) | convert (e : SanIntoErr)
  deriving DecidableEq, Repr

def pieceOfLetter (b : Nat) : Option Piece :=
  if b = 78 then some .knight else if b = 66 then some .bishop else if b = 82 then some .rook
  else if b = 81 then some .queen else if b = 75 then some .king else none

def promoteOfLetter (b : Nat) : Option Piece :=
  if b = 78 then some .knight else if b = 66 then some .bishop else if b = 82 then some .rook
  else if b = 81 then some .queen else none

def isFileByte (b : Nat) : Bool := 97 ≤ b && b ≤ 104
def isRankByte (b : Nat) : Bool := 49 ≤ b && b ≤ 56

/-- the piece-move branch of `san::Data::from_str` (`rest` = the bytes after the piece letter) -/
def parseSanPiece (data : Bytes) (piece : Piece) (rest : Bytes) : Res SanRawErr SanData :=
  let k := rest.length - 2   -- saturating_sub
  let dstBytes := rest.drop k
  -- `from_utf8(dst_bytes)` fails iff the cut falls inside a character → `Syntax`
  if !isCharBoundary data (k + 1) then .err .syntax else
  let bytes := rest.take k
  match parseCoord dstBytes with
  | .error e => .err (.invalidDst e)
  | .ok dst =>
    let (file, bytes) := match bytes with
      | b :: t => if isFileByte b then (fileOfByte b, t) else (none, bytes)
      | [] => (none, bytes)
    let (rank, bytes) := match bytes with
      | b :: t => if isRankByte b then (rankOfByte b, t) else (none, bytes)
      | [] => (none, bytes)
    let (isCapture, bytes) := match bytes with
      | b :: t => if b = 120 || b = 58 then (true, t) else (false, bytes)
      | [] => (false, bytes)
    if !bytes.isEmpty then .err .nonPawnMoveTooLong
    else .ok (.simple piece file rank isCapture dst)

/-- promotion suffix (`=`? then one of N B R Q) split off the end -/
def stripPromote (data : Bytes) : Option Piece × Bytes :=
  match data.getLast? with
  | some b =>
    match promoteOfLetter b with
    | some p =>
      let rest := data.dropLast
      let rest := if rest.getLast? = some 61 then rest.dropLast else rest
      (some p, rest)
    | none => (none, data)
  | none => (none, data)

/-- the pawn-move branch of `san::Data::from_str` (`bytes` = the text without the promotion suffix) -/
def parseSanPawn (data : Bytes) (promote : Option Piece) (bytes : Bytes) : Res SanRawErr SanData :=
  if bytes.length < 2 then .err .pawnMoveTooShort
  else if bytes.length = 2 && isFileByte (bytes.getD 0 0) && isFileByte (bytes.getD 1 0) then
    match fileOfByte (bytes.getD 0 0), fileOfByte (bytes.getD 1 0) with
    | some f1, some f2 => .ok (.pawnCaptureShort f1 f2 promote)
    | _, _ => .trap "File::from_char unwrap"
  else
    let k := bytes.length - 2
    let dstBytes := bytes.drop k
    if !isCharBoundary data k then .err .syntax else
    let bytes := bytes.take k
    match parseCoord dstBytes with
    | .error e => .err (.invalidDst e)
    | .ok dst =>
      match bytes with
      | [] => .ok (.pawnMove dst promote)
      | [_] => .err .syntax
      | [b0, b1] =>
        if !isFileByte b0 || !(b1 = 58 || b1 = 120) then .err .syntax
        else match fileOfByte b0 with
          | some f => .ok (.pawnCapture f dst promote)
          | none => .trap "File::from_char unwrap"
      | _ => .err .pawnMoveTooLong

/-- `san::Data::from_str` (repaired) -/
def parseSanData (data : Bytes) : Res SanRawErr SanData :=
  if data = [79, 45, 79] || data = [48, 45, 48] then .ok (.castling .king)
  else if data = [79, 45, 79, 45, 79] || data = [48, 45, 48, 45, 48] then .ok (.castling .queen)
  else if data.isEmpty then .err .emptyString
  else
    match parseUci data with
    | .trap w => .trap w
    | .ok mv => .ok (.uci mv)
    | .err _ =>
      match data with
      | [] => .trap "bytes[0] on empty"
      | first :: rest =>
        match pieceOfLetter first with
        | some piece => parseSanPiece data piece rest
        | none => parseSanPawn data (stripPromote data).1 (stripPromote data).2

/-- `san::Move::from_str` -/
def parseSan (s : Bytes) : Res SanRawErr SanMove :=
  let (check, body) : Option CheckMark × Bytes :=
    match s.getLast? with
    | some b =>
      if b = 35 || b = 120 then (some .checkmate, s.dropLast)
      else if b = 43 then
        let rest := s.dropLast
        if rest.getLast? = some 43 then (some .double, rest.dropLast) else (some .single, rest)
      else (none, s)
    | none => (none, s)
  match parseSanData body with
  | .ok d => .ok ⟨d, check⟩
  | .err e => .err e
  | .trap w => .trap w

/-- `AmbigSearcher`: state after pushing the candidate list (in order) filtered by `srcs` -/
inductive SearchState | empty | found (m : Move) | ambiguity (a b : Move)

def searchPush (srcs : BB) (st : SearchState) (mv : Move) : SearchState :=
  if !srcs.has mv.src then st
  else match st with
    | .empty => .found mv
    | .found mv2 => .ambiguity mv mv2
    | s@(.ambiguity _ _) => s

def searchResult : SearchState → Except SanIntoErr Move
  | .empty => .error .notFound
  | .found m => .ok m
  | .ambiguity a b => .error (.ambiguity a b)

def searcherSrcs (file rank : Option (Fin 8)) : BB :=
  let s : BB := BitVec.allOnes 64
  let s := match file with | some f => s &&& fileBB f | none => s
  match rank with | some r => s &&& rankBB r | none => s

def validateInto (b : Board) (mv : Move) : Res SanIntoErr Move :=
  match validateMove b mv with
  | .ok () => .ok mv
  | .err e => .err (.validate e)
  | .trap w => .trap w

/-- `san::Data::into_move` -/
def sanIntoMove (d : SanData) (b : Board) : Res SanIntoErr Move :=
  let side := b.r.side
  match d with
  | .uci u =>
    match uciIntoMove u b with
    | none => .err .create
    | some mv => validateInto b mv
  | .castling s => validateInto b (Move.fromCastling side s)
  | .pawnMove dst promote =>
    if dst.rank = promoteDstRank side.inv then .err .create
    else
      match dst.add? (-(forwardDelta side)) with
      | none => .trap "Coord::add out of range"
      | some src0 =>
        let (src, kind) : Sq × Kind :=
          if !(b.get src0).isOcc then (Sq.mk dst.file (doubleSrcRank side), .double) else (src0, .simple)
        let k := match promote with | some p => promoteKind p | none => kind
        match Move.new? k (Cell.mk side .pawn) src dst with
        | none => .err .create
        | some mv => validateInto b mv
  | .pawnCapture srcFile dst promote =>
    if dst.rank = promoteDstRank side.inv then .err .create
    else
      let kind : Kind := if some dst = b.r.epDest then .ep else .simple
      if kind ≠ .ep && (b.get dst).isFree then .err .captureExpected
      else
        match (Sq.mk srcFile dst.rank).add? (-(forwardDelta side)) with
        | none => .trap "Coord::add out of range"
        | some src =>
          let k := match promote with | some p => promoteKind p | none => kind
          match Move.new? k (Cell.mk side .pawn) src dst with
          | none => .err .create
          | some mv => validateInto b mv
  | .pawnCaptureShort src dst promote =>
    match sanPawnCaptureCandidates? b src dst promote with
    | none => .trap "king_pos unwrap"
    | some cands =>
      match searchResult (cands.foldl (searchPush (searcherSrcs none none)) .empty) with
      | .ok m => .ok m
      | .error e => .err e
  | .simple piece file rank isCapture dst =>
    if isCapture && (b.get dst).isFree then .err .captureExpected
    else
      match sanCandidates? b piece dst with
      | none => .trap "pawns are not supported here / king_pos unwrap"
      | some cands =>
        match searchResult (cands.foldl (searchPush (searcherSrcs file rank)) .empty) with
        | .ok m => .ok m
        | .error e => .err e

/-- `Move::from_san` -/
def moveFromSan (s : Bytes) (b : Board) : Res SanErr Move :=
  match parseSan s with
  | .trap w => .trap w
  | .err e => .err (.parse e)
  | .ok sm =>
    match sanIntoMove sm.data b with
    | .trap w => .trap w
    | .err e => .err (.convert e)
    | .ok mv => .ok mv

/-- `AmbigDetector` folded over the candidates -/
structure Detector where
  simAny : Bool := false
  simFile : Bool := false
  simRank : Bool := false

def detectorPush (mv : Move) (d : Detector) (m : Move) : Detector :=
  if m = mv then d
  else { simAny := true,
         simFile := d.simFile || decide (mv.src.file = m.src.file),
         simRank := d.simRank || decide (mv.src.rank = m.src.rank) }

/-- `san::Data::from_move` -/
def sanDataFromMove (mv : Move) (b : Board) : Res Unit SanData :=
  match mv.kind with
  | .null => .ok (.uci .null)
  | .double => .ok (.pawnMove mv.dst none)
  | .ep => .ok (.pawnCapture mv.src.file mv.dst none)
  | .castleK => .ok (.castling .king)
  | .castleQ => .ok (.castling .queen)
  | _ =>
    match mv.cell.piece with
    | none => .trap "piece().unwrap()"
    | some .pawn =>
      if mv.src.file = mv.dst.file then .ok (.pawnMove mv.dst mv.kind.promote)
      else .ok (.pawnCapture mv.src.file mv.dst mv.kind.promote)
    | some piece =>
      let isCapture := (b.get mv.dst).isOcc
      match sanCandidates? b piece mv.dst with
      | none => .trap "king_pos unwrap"
      | some cands =>
        let d := cands.foldl (detectorPush mv) {}
        let file := if d.simAny && (d.simRank || !d.simFile) then some mv.src.file else none
        let rank := if d.simAny && d.simFile then some mv.src.rank else none
        .ok (.simple piece file rank isCapture mv.dst)

/-- `TryUnchecked::make` / `make_raw`: the board after, or `NotLegal` (board restored) -/
def tryUnchecked (b : Board) (mv : Move) : Res MoveValidateError Board :=
  let b' := (makeMove b mv).1
  match isOpponentKingAttacked? b' with
  | none => .trap "king_pos unwrap"
  | some true => .err .notLegal
  | some false => .ok b'

/-- `impl Make for Move` -/
def makeMoveChecked (b : Board) (mv : Move) : Res MoveValidateError Board :=
  if !isSemilegal b mv then .err .notSemiLegal else tryUnchecked b mv

/-- `san::Move::from_move` -/
def sanFromMove (mv : Move) (b : Board) : Res MoveValidateError SanMove :=
  match sanDataFromMove mv b with
  | .trap w => .trap w
  | .err () => .trap "unreachable"
  | .ok data =>
    match makeMoveChecked b mv with
    | .trap w => .trap w
    | .err e => .err e
    | .ok b' =>
      match isCheck? b', hasLegalMoves? b' with
      | some true, some true => .ok ⟨data, some .single⟩
      | some true, some false => .ok ⟨data, some .checkmate⟩
      | some false, _ => .ok ⟨data, none⟩
      | _, _ => .trap "king_pos unwrap"

def pieceLetter : Piece → Nat
  | .pawn => 80 | .knight => 78 | .bishop => 66 | .rook => 82 | .queen => 81 | .king => 75

def fmtPromote : Option Piece → Bytes
  | none => []
  | some p => [61, pieceLetter p]

/-- `san::Data::do_fmt::<AlgebraicTheme>` -/
def fmtSanData : SanData → Res Unit Bytes
  | .uci u => .ok (fmtUci u)
  | .castling .king => .ok [79, 45, 79]
  | .castling .queen => .ok [79, 45, 79, 45, 79]
  | .pawnMove dst promote => .ok (fmtCoord dst ++ fmtPromote promote)
  | .pawnCapture src dst promote => .ok ([fileByte src, 120] ++ fmtCoord dst ++ fmtPromote promote)
  | .pawnCaptureShort src dst promote => .ok ([fileByte src, fileByte dst] ++ fmtPromote promote)
  | .simple piece file rank isCapture dst =>
    if piece = .pawn then .trap "cannot store pawn move as Move::Simple"
    else .ok ([pieceLetter piece]
      ++ (match file with | some f => [fileByte f] | none => [])
      ++ (match rank with | some r => [rankByte r] | none => [])
      ++ (if isCapture then [120] else []) ++ fmtCoord dst)

/-- `Display for san::Move` -/
def fmtSan (m : SanMove) : Res Unit Bytes :=
  match fmtSanData m.data with
  | .ok d => .ok (d ++ (match m.check with
      | some .single => [43] | some .double => [43, 43] | some .checkmate => [35] | none => []))
  | r => r

/-! ### `Make` for the five move-like inputs -/

inductive MakeErr
  | validate (e : MoveValidateError)
  | uci (e : UciErr)
  | sanInto (e : SanIntoErr)
  | san (e : SanErr)
  deriving DecidableEq, Repr

/-- `impl Make for uci::Move` -/
def makeUciMove (b : Board) (u : UciMove) : Res MakeErr (Move × Board) :=
  match uciIntoMove u b with
  | none => .err (.uci .create)
  | some mv => match makeMoveChecked b mv with
    | .ok b' => .ok (mv, b')
    | .err e => .err (.uci (.validate e))
    | .trap w => .trap w

/-- `impl Make for Uci<S>` -/
def makeUciStr (b : Board) (s : Bytes) : Res MakeErr (Move × Board) :=
  match moveFromUciSemilegal s b with
  | .trap w => .trap w
  | .err e => .err (.uci e)
  | .ok mv => match tryUnchecked b mv with
    | .ok b' => .ok (mv, b')
    | .err e => .err (.uci (.validate e))
    | .trap w => .trap w

/-- `impl Make for san::Move` (applies the resolved move unchecked) -/
def makeSanMove (b : Board) (m : SanMove) : Res MakeErr (Move × Board) :=
  match sanIntoMove m.data b with
  | .trap w => .trap w
  | .err e => .err (.sanInto e)
  | .ok mv => .ok (mv, (makeMove b mv).1)

/-- `impl Make for San<S>` -/
def makeSanStr (b : Board) (s : Bytes) : Res MakeErr (Move × Board) :=
  match moveFromSan s b with
  | .trap w => .trap w
  | .err e => .err (.san e)
  | .ok mv => .ok (mv, (makeMove b mv).1)

end Owl.Impl
