/-
Implementation model: text parsers and printers on **bytes** (`List Nat`, every element < 256).
rust: chess_base/src/types.rs (FromStr/Display for Coord, Cell, Color, CastlingRights),
      chess/src/board.rs (parse_cells, parse_ep_source, FromStr/Display for RawBoard, FromStr for Board),
      chess/src/moves/uci.rs (Move: FromStr, Display, do_into_move, From<base::Move>),
      chess/src/moves/base.rs (from_uci, from_uci_semilegal, from_uci_legal)
A Rust `&str` is valid UTF-8; slicing off a character boundary panics — modelled by `isCharBoundary`.
Modelled std pieces: `u16::from_str`, `Display for u16/usize`, `str::split(' ')`, `is_ascii`.
`uci::Move::from_str` follows the repaired code (`str::get` instead of slicing), DESIGN §7 D2.
-/
import OwlModel.Impl.MoveGen

namespace Owl.Impl
open Owl

abbrev Bytes := List Nat

/-- `str::is_ascii` -/
def isAscii (s : Bytes) : Bool := s.all (· < 128)

/-- `str::is_char_boundary` for 0 < i < len: the byte at `i` is not a continuation byte -/
def isCharBoundary (s : Bytes) (i : Nat) : Bool :=
  i == 0 || i == s.length || (match s[i]? with | some b => !(128 ≤ b && b < 192) | none => false)

inductive CoordErr | badLength | fileChar (b : Nat) | rankChar (b : Nat)
  deriving DecidableEq, Repr
inductive CharErr | badLength | unexpected (b : Nat)
  deriving DecidableEq, Repr
inductive RightsErr | unexpected (b : Nat) | duplicate (b : Nat) | emptyString
  deriving DecidableEq, Repr

def fin8OfNat (n : Nat) (h : n < 8) : Fin 8 := ⟨n, h⟩

/-- `File::from_char` on a byte-as-char -/
def fileOfByte (b : Nat) : Option (Fin 8) := if h : 97 ≤ b ∧ b ≤ 104 then some ⟨b - 97, by omega⟩ else none
/-- `Rank::from_char` -/
def rankOfByte (b : Nat) : Option (Fin 8) := if h : 49 ≤ b ∧ b ≤ 56 then some ⟨56 - b, by omega⟩ else none
def fileByte (f : Fin 8) : Nat := 97 + f.val
def rankByte (r : Fin 8) : Nat := 56 - r.val

/-- `Coord::from_str` -/
def parseCoord (s : Bytes) : Except CoordErr Sq :=
  match s with
  | [f, r] =>
    match fileOfByte f with
    | none => .error (.fileChar f)
    | some file =>
      match rankOfByte r with
      | none => .error (.rankChar r)
      | some rank => .ok (Sq.mk file rank)
  | _ => .error .badLength

/-- `Display for Coord` -/
def fmtCoord (s : Sq) : Bytes := [fileByte s.file, rankByte s.rank]

def isUpper (b : Nat) : Bool := 65 ≤ b && b ≤ 90
def toLower (b : Nat) : Nat := if isUpper b then b + 32 else b

/-- `Cell::from_char` -/
def cellOfByte (b : Nat) : Option Cell :=
  if b = 46 then some Cell.empty
  else
    let color := if isUpper b then Color.white else Color.black
    let piece? : Option Piece :=
      let l := toLower b
      if l = 112 then some .pawn else if l = 107 then some .king else if l = 110 then some .knight
      else if l = 98 then some .bishop else if l = 114 then some .rook else if l = 113 then some .queen
      else none
    piece?.map (Cell.mk color)

/-- `Cell::as_char` -/
def cellByte (c : Cell) : Nat := Gen.cellChars.getD c.val 63

/-- `Cell::from_str` -/
def parseCell (s : Bytes) : Except CharErr Cell :=
  match s with
  | [b] => match cellOfByte b with | some c => .ok c | none => .error (.unexpected b)
  | _ => .error .badLength

def colorOfByte (b : Nat) : Option Color := if b = 119 then some .white else if b = 98 then some .black else none
def colorByte : Color → Nat | .white => 119 | .black => 98

/-- `Color::from_str` -/
def parseColor (s : Bytes) : Except CharErr Color :=
  match s with
  | [b] => match colorOfByte b with | some c => .ok c | none => .error (.unexpected b)
  | _ => .error .badLength

def parseRightsLoop : Bytes → Rights → Except RightsErr Rights
  | [], res => .ok res
  | b :: rest, res =>
    let cs? : Option (Color × Side) :=
      if b = 75 then some (.white, .king) else if b = 81 then some (.white, .queen)
      else if b = 107 then some (.black, .king) else if b = 113 then some (.black, .queen) else none
    match cs? with
    | none => .error (.unexpected b)
    | some (c, s) =>
      if rHas res c s then .error (.duplicate b) else parseRightsLoop rest (rWith res c s)

/-- `CastlingRights::from_str` -/
def parseRights (s : Bytes) : Except RightsErr Rights :=
  if s = [45] then .ok 0
  else if s = [] then .error .emptyString
  else parseRightsLoop s 0

/-- `Display for CastlingRights` -/
def fmtRights (r : Rights) : Bytes :=
  if r = 0 then [45]
  else (if rHas r .white .king then [75] else []) ++ (if rHas r .white .queen then [81] else [])
    ++ (if rHas r .black .king then [107] else []) ++ (if rHas r .black .queen then [113] else [])

/-! ### numbers -/

def isDigit (b : Nat) : Bool := 48 ≤ b && b ≤ 57

/-- `u16::from_str`: optional `+`, at least one digit, no overflow -/
def parseU16 (s : Bytes) : Option Nat :=
  let d := match s with | 43 :: rest => rest | _ => s
  if d.isEmpty then none
  else if d.all isDigit then
    let v := d.foldl (fun a b => a * 10 + (b - 48)) 0
    if v ≤ 65535 then some v else none
  else none

def fmtNatAux : Nat → Nat → Bytes → Bytes
  | 0, _, acc => acc
  | fuel+1, n, acc =>
    let acc := (48 + n % 10) :: acc
    if n / 10 = 0 then acc else fmtNatAux fuel (n / 10) acc

/-- `Display for u16 / usize` (decimal, no sign, no leading zeros) -/
def fmtNat (n : Nat) : Bytes := fmtNatAux 32 n []

/-! ### FEN -/

inductive CellsErr
  | rankOverflow (r : Nat) | rankUnderflow (r : Nat) | overflow | underflow | unexpected (b : Nat)
  deriving DecidableEq, Repr

inductive RawFenErr
  | nonAscii | noBoard | board (e : CellsErr) | noMoveSide | moveSide (e : CharErr)
  | noCastling | castling (e : RightsErr) | noEnpassant | enpassant (e : CoordErr)
  | invalidEnpassantRank (r : Nat) | moveCounter | moveNumber | extraData
  deriving DecidableEq, Repr

inductive FenErr | fen (e : RawFenErr) | valid (e : ValidateError)
  deriving DecidableEq, Repr

/-- loop of `parse_cells`; state (file, rank, pos, cells) -/
def parseCellsLoop : Bytes → Nat → Nat → Nat → Tab 64 Cell → Res CellsErr (Nat × Nat × Nat × Tab 64 Cell)
  | [], file, rank, pos, cells => .ok (file, rank, pos, cells)
  | b :: rest, file, rank, pos, cells =>
    if 49 ≤ b ∧ b ≤ 56 then
      let add := b - 48
      if file + add > 8 then
        (if rank < 8 then .err (.rankOverflow rank) else .trap "Rank::from_index")
      else parseCellsLoop rest (file + add) rank (pos + add) cells
    else if b = 47 then
      if file < 8 then
        (if rank < 8 then .err (.rankUnderflow rank) else .trap "Rank::from_index")
      else if rank + 1 ≥ 8 then .err .overflow
      else parseCellsLoop rest 0 (rank + 1) pos cells
    else
      if file ≥ 8 then
        (if rank < 8 then .err (.rankOverflow rank) else .trap "Rank::from_index")
      else
        match cellOfByte b with
        | none => .err (.unexpected b)
        | some c =>
          if h : pos < 64 then parseCellsLoop rest (file + 1) rank (pos + 1) (cells.put ⟨pos, h⟩ c)
          else .trap "cells[pos] out of bounds"

/-- `parse_cells` -/
def parseCells (s : Bytes) : Res CellsErr (Tab 64 Cell) :=
  match parseCellsLoop s 0 0 0 (Tab.fill Cell.empty) with
  | .err e => .err e
  | .trap w => .trap w
  | .ok (file, rank, pos, cells) =>
    if file < 8 then (if rank < 8 then .err (.rankUnderflow rank) else .trap "Rank::from_index")
    else if rank < 7 then .err .underflow
    else if file = 8 ∧ rank = 7 ∧ pos = 64 then .ok cells
    else .trap "assert_eq in parse_cells"

/-- `parse_ep_source` -/
def parseEpSource (s : Bytes) (side : Color) : Except RawFenErr (Option Sq) :=
  if s = [45] then .ok none
  else
    match parseCoord s with
    | .error e => .error (.enpassant e)
    | .ok ep =>
      if ep.rank ≠ epDstRank side then .error (.invalidEnpassantRank ep.rank.val)
      else .ok (some (Sq.mk ep.file (epSrcRank side)))

/-- `str::split(' ')` -/
def splitSpaces (s : Bytes) : List Bytes :=
  let (cur, acc) := s.foldl (fun (st : Bytes × List Bytes) b =>
    if b = 32 then ([], st.1.reverse :: st.2) else (b :: st.1, st.2)) ([], [])
  (cur.reverse :: acc).reverse

/-- `RawBoard::from_str` -/
def parseFen (s : Bytes) : Res RawFenErr RawBoard :=
  if !isAscii s then .err .nonAscii
  else
    let parts := splitSpaces s
    match parts with
    | [] => .err .noBoard   -- unreachable: split yields at least one item
    | p0 :: t0 =>
      match parseCells p0 with
      | .trap w => .trap w
      | .err e => .err (.board e)
      | .ok cells =>
        match t0 with
        | [] => .err .noMoveSide
        | p1 :: t1 =>
          match parseColor p1 with
          | .error e => .err (.moveSide e)
          | .ok side =>
            match t1 with
            | [] => .err .noCastling
            | p2 :: t2 =>
              match parseRights p2 with
              | .error e => .err (.castling e)
              | .ok castling =>
                match t2 with
                | [] => .err .noEnpassant
                | p3 :: t3 =>
                  match parseEpSource p3 side with
                  | .error e => .err e
                  | .ok ep =>
                    let finish (mc mn : Nat) (rest : List Bytes) : Res RawFenErr RawBoard :=
                      if !rest.isEmpty then .err .extraData
                      else .ok { cells := cells, side := side, castling := castling, ep := ep, mc := mc, mn := mn }
                    match t3 with
                    | [] => finish 0 1 []
                    | p4 :: t4 =>
                      match parseU16 p4 with
                      | none => .err .moveCounter
                      | some mc =>
                        match t4 with
                        | [] => finish mc 1 []
                        | p5 :: t5 =>
                          match parseU16 p5 with
                          | none => .err .moveNumber
                          | some mn => finish mc mn t5

/-- `Board::from_str` -/
def parseFenBoard (s : Bytes) : Res FenErr Board :=
  match parseFen s with
  | .trap w => .trap w
  | .err e => .err (.fen e)
  | .ok raw =>
    match validate raw with
    | .trap w => .trap w
    | .err e => .err (.valid e)
    | .ok b => .ok b

/-- one rank of `format_cells` -/
def fmtRankCells (cells : Tab 64 Cell) (rank : Fin 8) : Bytes :=
  let (out, empty) := (List.finRange 8).foldl (fun (st : Bytes × Nat) file =>
    let cell := cells.get (Sq.mk file rank)
    if cell.isFree then (st.1, st.2 + 1)
    else
      let o := if st.2 ≠ 0 then st.1 ++ [48 + st.2] else st.1
      (o ++ [cellByte cell], 0)) ([], 0)
  if empty ≠ 0 then out ++ [48 + empty] else out

/-- `format_cells` -/
def fmtCells (cells : Tab 64 Cell) : Bytes :=
  (List.finRange 8).foldl (fun out rank =>
    (if rank.val ≠ 0 then out ++ [47] else out) ++ fmtRankCells cells rank) []

/-- `Display for RawBoard` -/
def fmtFen (r : RawBoard) : Bytes :=
  fmtCells r.cells ++ [32, colorByte r.side, 32] ++ fmtRights r.castling
    ++ (match r.epDest with | some p => 32 :: fmtCoord p | none => [32, 45])
    ++ [32] ++ fmtNat r.mc ++ [32] ++ fmtNat r.mn

/-! ### UCI -/

/-- `uci::Move` -/
inductive UciMove
  | null
  | move (src dst : Sq) (promote : Option Piece)
  deriving DecidableEq, Repr

inductive UciRawErr | badLength | badSrc (e : CoordErr) | badDst (e : CoordErr) | badPromote (b : Nat)
  deriving DecidableEq, Repr

/-- `str::get(a..b)`: `none` unless both ends are character boundaries -/
def strGet (s : Bytes) (a b : Nat) : Option Bytes :=
  if isCharBoundary s a && isCharBoundary s b then some ((s.drop a).take (b - a)) else none

/-- `uci::Move::from_str` (repaired: `str::get` instead of slicing; a cut character gives `BadLength`) -/
def parseUci (s : Bytes) : Res UciRawErr UciMove :=
  if s = [48, 48, 48, 48] then .ok .null
  else if !(s.length = 4 || s.length = 5) then .err .badLength
  else
    match strGet s 0 2 with
    | none => .err .badLength
    | some srcTxt =>
      match parseCoord srcTxt with
      | .error e => .err (.badSrc e)
      | .ok src =>
        match strGet s 2 4 with
        | none => .err .badLength
        | some dstTxt =>
          match parseCoord dstTxt with
          | .error e => .err (.badDst e)
          | .ok dst =>
            if s.length = 5 then
              let b := s.getD 4 0
              if b = 110 then .ok (.move src dst (some .knight))
              else if b = 98 then .ok (.move src dst (some .bishop))
              else if b = 114 then .ok (.move src dst (some .rook))
              else if b = 113 then .ok (.move src dst (some .queen))
              else .err (.badPromote b)
            else .ok (.move src dst none)

/-- `Display for uci::Move` -/
def fmtUci : UciMove → Bytes
  | .null => [48, 48, 48, 48]
  | .move src dst promote =>
    fmtCoord src ++ fmtCoord dst ++ (match promote with
      | some .knight => [110] | some .bishop => [98] | some .rook => [114] | some .queen => [113]
      | _ => [])

/-- `From<base::Move> for uci::Move` -/
def uciOfMove (mv : Move) : UciMove :=
  if mv.kind = .null then .null else .move mv.src mv.dst mv.kind.promote

/-- `uci::Move::do_into_move::<C>` with `C::COLOR = b.r.side`; `none` = `CreateError::NotWellFormed` -/
def uciIntoMove (u : UciMove) (b : Board) : Option Move :=
  match u with
  | .null => some Move.null
  | .move src dst promote =>
    let c := b.r.side
    let srcCell := b.get src
    if srcCell.color ≠ some c then none
    else
      let kind : Kind := match promote with
        | some p => promoteKind p
        | none =>
          match srcCell.piece with
          | some .pawn =>
            if src.rank = doubleSrcRank c && dst.rank = doubleDstRank c then .double
            else if src.file ≠ dst.file && (b.get dst).isFree then .ep
            else .simple
          | some .king =>
            let rank := castlingRank c
            if src = Sq.mk fileE rank then
              if dst = Sq.mk fileG rank then .castleK
              else if dst = Sq.mk fileC rank then .castleQ
              else .simple
            else .simple
          | _ => .simple
      Move.new? kind srcCell src dst

inductive UciErr | parse (e : UciRawErr) | create | validate (e : MoveValidateError)
  deriving DecidableEq, Repr

/-- `Move::from_uci` -/
def moveFromUci (s : Bytes) (b : Board) : Res UciErr Move :=
  match parseUci s with
  | .trap w => .trap w
  | .err e => .err (.parse e)
  | .ok u => match uciIntoMove u b with
    | none => .err .create
    | some mv => .ok mv

/-- `Move::from_uci_semilegal` -/
def moveFromUciSemilegal (s : Bytes) (b : Board) : Res UciErr Move :=
  match moveFromUci s b with
  | .ok mv => if isSemilegal b mv then .ok mv else .err (.validate .notSemiLegal)
  | r => r

/-- `Move::from_uci_legal` -/
def moveFromUciLegal (s : Bytes) (b : Board) : Res UciErr Move :=
  match moveFromUci s b with
  | .ok mv =>
    match validateMove b mv with
    | .ok () => .ok mv
    | .err e => .err (.validate e)
    | .trap w => .trap w
  | r => r

end Owl.Impl
