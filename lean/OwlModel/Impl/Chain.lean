/-
Implementation model: outcome logic, move chain, walker, list printing.
rust: chess_base/src/types.rs (Outcome, OutcomeFilter, passes, is_force, GameStatus),
      chess/src/board.rs (is_insufficient_material, calc_outcome, calc_draw_simple),
      chess/src/chain.rs (HashRepeat, BaseMoveChain, Walker, UciList, StyledList)
`HashMap<u64, usize>` is modelled as an association list (only "finite map" is used).
-/
import OwlModel.Impl.San

namespace Owl.Impl
open Owl

inductive DrawReason
  | stalemate | insufficientMaterial | moves75 | repeat5 | moves50 | repeat3 | agreement | unknown
  deriving DecidableEq, Repr
inductive WinReason
  | checkmate | timeForfeit | invalidMove | engineError | resign | abandon | unknown
  deriving DecidableEq, Repr
inductive Outcome
  | win (side : Color) (reason : WinReason)
  | draw (reason : DrawReason)
  deriving DecidableEq, Repr
inductive OutcomeFilter | force | strict | relaxed
  deriving DecidableEq, Repr

/-- `Outcome::is_force` -/
def Outcome.isForce : Outcome → Bool
  | .win _ .checkmate => true
  | .draw .stalemate => true
  | _ => false

/-- `Outcome::passes` -/
def Outcome.passes (o : Outcome) (f : OutcomeFilter) : Bool :=
  if o.isForce then true
  else if (f = .strict || f = .relaxed)
      && (o = .draw .insufficientMaterial || o = .draw .moves75 || o = .draw .repeat5) then true
  else f = .relaxed && (o = .draw .moves50 || o = .draw .repeat3)

/-- `Board::is_insufficient_material` -/
def isInsufficientMaterial (b : Board) : Bool :=
  let allWithoutKings := b.all ^^^ (b.piece2 .white .king ||| b.piece2 .black .king)
  if (allWithoutKings &&& lightSquares).nonEmpty && (allWithoutKings &&& darkSquares).nonEmpty then false
  else if allWithoutKings.isEmpty then true
  else
    let knights := b.piece2 .white .knight ||| b.piece2 .black .knight
    if allWithoutKings = knights && Gen.loneKnight knights.len then true
    else
      let bishops := b.piece2 .white .bishop ||| b.piece2 .black .bishop
      allWithoutKings = bishops

/-- `Board::calc_draw_simple` -/
def calcDrawSimple (b : Board) : Option DrawReason :=
  if isInsufficientMaterial b then some .insufficientMaterial
  else if Gen.moves75 b.r.mc then some .moves75
  else if Gen.moves50 b.r.mc then some .moves50
  else none

/-- `Board::calc_outcome`; outer `none` = `king_pos` panic -/
def calcOutcome? (b : Board) : Option (Option Outcome) :=
  match hasLegalMoves? b, isCheck? b with
  | some false, some true => some (some (.win b.r.side.inv .checkmate))
  | some false, some false => some (some (.draw .stalemate))
  | some true, _ => some ((calcDrawSimple b).map .draw)
  | _, _ => none

/-! ### HashRepeat -/

abbrev Repeat := List (BB × Nat)

def Repeat.count (r : Repeat) (h : BB) : Nat := ((r.find? fun e => e.1 == h).map (·.2)).getD 0
def Repeat.push (r : Repeat) (h : BB) : Repeat :=
  if r.any (fun e => e.1 == h) then r.map fun e => if e.1 == h then (e.1, e.2 + 1) else e
  else (h, 1) :: r
/-- `HashRepeat::pop`; `none` = `get_mut().unwrap()` panic -/
def Repeat.pop? (r : Repeat) (h : BB) : Option Repeat :=
  if r.any (fun e => e.1 == h) then
    some ((r.map fun e => if e.1 == h then (e.1, e.2 - 1) else e).filter fun e => e.2 ≠ 0)
  else none

/-- `BaseMoveChain<HashRepeat>`; `stack` oldest first -/
structure Chain where
  start : RawBoard
  board : Board
  rep : Repeat
  stack : List (Move × RawUndo)
  outcome : Option Outcome

/-- `BaseMoveChain::new` -/
def Chain.new (b : Board) : Chain :=
  { start := b.r, board := b, rep := Repeat.push [] b.hash, stack := [], outcome := none }

def Chain.isFinished (ch : Chain) : Bool := ch.outcome.isSome

/-- `calc_outcome` of the chain; outer `none` = panic -/
def Chain.calcOutcome? (ch : Chain) : Option (Option Outcome) :=
  match Impl.calcOutcome? ch.board with
  | none => none
  | some outcome =>
    let first : OutcomeFilter := match Gen.chainFirstFilter with | 0 => .force | 1 => .strict | _ => .relaxed
    if (outcome.any fun o => o.passes first) then some outcome
    else
      let rep := ch.rep.count ch.board.hash
      if Gen.repeat5 rep then some (some (.draw .repeat5))
      else if Gen.repeat3 rep then some (some (.draw .repeat3))
      else some outcome

/-- `set_auto_outcome` (precondition: not finished) -/
def Chain.setAutoOutcome? (ch : Chain) (f : OutcomeFilter) : Option Chain :=
  match ch.calcOutcome? with
  | none => none
  | some none => some ch
  | some (some o) => if o.passes f then some { ch with outcome := some o } else some ch

/-- `do_finish_push` -/
def Chain.finishPush (ch : Chain) (b' : Board) (mv : Move) (u : RawUndo) : Chain :=
  { ch with board := b', rep := ch.rep.push b'.hash, stack := ch.stack ++ [(mv, u)] }

/-- undo record `make_move_unchecked` would return for `mv` on `b` -/
def undoOf (b : Board) (mv : Move) : RawUndo := (makeMove b mv).2

/-- `push` for any `Make`: given the `Make` result on the current board (precondition: not finished) -/
def Chain.pushWith (ch : Chain) (r : Res MakeErr (Move × Board)) : Res MakeErr Chain :=
  match r with
  | .ok (mv, b') => .ok (ch.finishPush b' mv (undoOf ch.board mv))
  | .err e => .err e
  | .trap w => .trap w

/-- `impl Make for Move` lifted to `MakeErr` -/
def makeMoveLike (b : Board) (mv : Move) : Res MakeErr (Move × Board) :=
  match makeMoveChecked b mv with
  | .ok b' => .ok (mv, b')
  | .err e => .err (.validate e)
  | .trap w => .trap w

/-- `pop`; outer `none` = panic in `HashRepeat::pop` -/
def Chain.pop? (ch : Chain) : Option (Chain × Option Move) :=
  match ch.stack.getLast? with
  | none => some (ch, none)
  | some (m, u) =>
    match ch.rep.pop? ch.board.hash with
    | none => none
    | some rep =>
      some ({ ch with stack := ch.stack.dropLast, rep := rep, outcome := none,
                      board := unmakeMove ch.board m u }, some m)

/-- `split_ascii_whitespace` -/
def isAsciiWs (b : Nat) : Bool := b = 32 || b = 9 || b = 10 || b = 12 || b = 13
def splitAsciiWhitespace (s : Bytes) : List Bytes :=
  let (cur, acc) := s.foldl (fun (st : Bytes × List Bytes) b =>
    if isAsciiWs b then (if st.1.isEmpty then st else ([], st.1.reverse :: st.2)) else (b :: st.1, st.2)) ([], [])
  (if cur.isEmpty then acc else cur.reverse :: acc).reverse

/-- `push_uci_list`: the chain after the accepted prefix and, on failure, (position, error) -/
def Chain.pushUciList (ch : Chain) (s : Bytes) : Chain × Option (Nat × Res MakeErr Unit) :=
  let rec go (ch : Chain) (toks : List Bytes) (pos : Nat) : Chain × Option (Nat × Res MakeErr Unit) :=
    match toks with
    | [] => (ch, none)
    | t :: rest =>
      match ch.pushWith (makeUciStr ch.board t) with
      | .ok ch' => go ch' rest (pos + 1)
      | .err e => (ch, some (pos, .err e))
      | .trap w => (ch, some (pos, .trap w))
  go ch (splitAsciiWhitespace s) 0

/-- `PartialEq for BaseMoveChain` -/
def Chain.beq (a b : Chain) : Bool :=
  decide (a.start = b.start) && a.stack.length == b.stack.length && decide (a.outcome = b.outcome)
    && (a.stack.zip b.stack).all fun p => decide (p.1.1 = p.2.1)

/-- `UciList` display -/
def Chain.uciList (ch : Chain) : Bytes :=
  (ch.stack.map fun e => fmtUci (uciOfMove e.1)).foldl
    (fun (acc : Bytes × Bool) t => ((if acc.2 then acc.1 else acc.1 ++ [32]) ++ t, false)) ([], true) |>.1

/-! ### Walker -/

structure Walker where
  board : Board
  stack : List (Move × RawUndo)
  pos : Nat
  boardPos : Nat

/-- `walk` -/
def Chain.walk (ch : Chain) : Walker :=
  { board := ch.board, stack := ch.stack, pos := 0, boardPos := ch.stack.length }

/-- `set_board_pos`; `none` = index panic -/
def Walker.setBoardPos? (w : Walker) (target : Nat) : Option Walker :=
  let rec down (fuel : Nat) (w : Walker) : Option Walker :=
    match fuel with
    | 0 => some w
    | fuel+1 =>
      if w.boardPos > target then
        match w.stack[w.boardPos - 1]? with
        | none => none
        | some (mv, u) => down fuel { w with boardPos := w.boardPos - 1, board := unmakeMove w.board mv u }
      else some w
  let rec up (fuel : Nat) (w : Walker) : Option Walker :=
    match fuel with
    | 0 => some w
    | fuel+1 =>
      if w.boardPos < target then
        match w.stack[w.boardPos]? with
        | none => none
        | some (mv, _) => up fuel { w with boardPos := w.boardPos + 1, board := (makeMove w.board mv).1 }
      else some w
  match down (w.stack.length + 1) w with
  | none => none
  | some w' => up (w.stack.length + 1) w'

/-- `Walker::next`; outer `none` = panic -/
def Walker.next? (w : Walker) : Option (Walker × Option (Board × Move)) :=
  if w.pos = w.stack.length then some (w, none)
  else
    let w := { w with pos := w.pos + 1 }
    match w.setBoardPos? (w.pos - 1) with
    | none => none
    | some w' =>
      match w'.stack[w'.pos - 1]? with
      | none => none
      | some (mv, _) => some (w', some (w'.board, mv))

/-- `Walker::prev` -/
def Walker.prev? (w : Walker) : Option (Walker × Option (Board × Move)) :=
  if w.pos = 0 then some (w, none)
  else
    let w := { w with pos := w.pos - 1 }
    match w.setBoardPos? w.pos with
    | none => none
    | some w' =>
      match w'.stack[w'.pos]? with
      | none => none
      | some (mv, _) => some (w', some (w'.board, mv))

def Walker.toStart (w : Walker) : Walker := { w with pos := 0 }
def Walker.toEnd (w : Walker) : Walker := { w with pos := w.stack.length }

/-! ### StyledList -/

inductive NumberPolicy | omit | fromBoard | custom (n : Nat)
inductive MoveStyle | san | sanUtf8 | uci
  deriving DecidableEq

/-- `GameStatus` display of the stored outcome -/
def fmtStatus : Option Outcome → Bytes
  | some (.win .white _) => [49, 45, 48]
  | some (.win .black _) => [48, 45, 49]
  | some (.draw _) => [49, 47, 50, 45, 49, 47, 50]
  | none => [42]

def utf8Piece : Piece → Bytes
  | .pawn => [0xE2, 0x99, 0x99] | .knight => [0xE2, 0x99, 0x98] | .bishop => [0xE2, 0x99, 0x97]
  | .rook => [0xE2, 0x99, 0x96] | .queen => [0xE2, 0x99, 0x95] | .king => [0xE2, 0x99, 0x94]

/-- `san::Data::do_fmt::<Utf8Theme>` (no `=` before the promotion piece) -/
def fmtSanDataUtf8 : SanData → Res Unit Bytes
  | .pawnMove dst promote => .ok (fmtCoord dst ++ (match promote with | some p => utf8Piece p | none => []))
  | .pawnCapture src dst promote =>
    .ok ([fileByte src, 120] ++ fmtCoord dst ++ (match promote with | some p => utf8Piece p | none => []))
  | .pawnCaptureShort src dst promote =>
    .ok ([fileByte src, fileByte dst] ++ (match promote with | some p => utf8Piece p | none => []))
  | .simple piece file rank isCapture dst =>
    if piece = .pawn then .trap "cannot store pawn move as Move::Simple"
    else .ok (utf8Piece piece
      ++ (match file with | some f => [fileByte f] | none => [])
      ++ (match rank with | some r => [rankByte r] | none => [])
      ++ (if isCapture then [120] else []) ++ fmtCoord dst)
  | d => fmtSanData d

/-- `Move::styled(b, style)` then `to_string`; `none` = the `.unwrap()` would panic -/
def fmtStyledMove? (mv : Move) (b : Board) (style : MoveStyle) : Option Bytes :=
  match style with
  | .uci => some (fmtUci (uciOfMove mv))
  | .san =>
    match sanFromMove mv b with
    | .ok sm => (match fmtSan sm with | .ok t => some t | _ => none)
    | _ => none
  | .sanUtf8 =>
    match sanFromMove mv b with
    | .ok sm =>
      (match fmtSanDataUtf8 sm.data with
       | .ok d => some (d ++ (match sm.check with
          | some .single => [43] | some .double => [43, 43] | some .checkmate => [35] | none => []))
       | _ => none)
    | _ => none

/-- `Display for StyledList`; `none` = panic -/
def Chain.styled? (ch : Chain) (nums : NumberPolicy) (style : MoveStyle) (showStatus : Bool) : Option Bytes :=
  if ch.stack.isEmpty then some (if showStatus then fmtStatus ch.outcome else [])
  else
    match (ch.walk).next? with
    | some (w, some (b, mv)) =>
      let realStart := b.r.mn
      let startNum : Option Nat := match nums with
        | .omit => none | .fromBoard => some realStart | .custom u => some u
      let head : Bytes := match startNum with
        | some num => (match b.r.side with
            | .white => fmtNat num ++ [46, 32]
            | .black => fmtNat num ++ [46, 46, 46, 32])
        | none => []
      match fmtStyledMove? mv b style with
      | none => none
      | some t =>
        let rec loop (fuel : Nat) (w : Walker) (out : Bytes) : Option Bytes :=
          match fuel with
          | 0 => some out
          | fuel+1 =>
            match w.next? with
            | none => none
            | some (_, none) => some out
            | some (w', some (b, mv)) =>
              let numTxt : Bytes := match startNum with
                | some num => if b.r.side = .white then
                    if b.r.mn + num < realStart then [] -- usize underflow: see DESIGN App. C (not reachable: mn is monotone)
                    else [32] ++ fmtNat (b.r.mn - realStart + num) ++ [46]
                  else []
                | none => []
              match fmtStyledMove? mv b style with
              | none => none
              | some t => loop fuel w' (out ++ numTxt ++ [32] ++ t)
        match loop (ch.stack.length + 1) w (head ++ t) with
        | none => none
        | some out => some (if showStatus then out ++ [32] ++ fmtStatus ch.outcome else out)
    | _ => none

end Owl.Impl
