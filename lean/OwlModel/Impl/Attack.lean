/-
Implementation model: attack and between lookups, pawn set shifts, named constants.
rust: chess/src/attack.rs, chess/src/between.rs, chess/src/pawns.rs, chess/src/castling.rs,
      chess_base/src/bitboard_consts.rs, chess_base/src/geometry.rs
Data come from the generated `Gen` files; the index arithmetic is transcribed here.
-/
import OwlModel.Basic
import OwlModel.Gen.Near
import OwlModel.Gen.Between
import OwlModel.Gen.Magic
import OwlModel.Gen.Consts

namespace Owl.Impl
open Owl

/-- `attack::king` -/
def kingAttack (s : Sq) : BB := tabGet Gen.kingTab s.val
/-- `attack::knight` -/
def knightAttack (s : Sq) : BB := tabGet Gen.knightTab s.val
/-- `attack::pawn` -/
def pawnAttack (c : Color) (s : Sq) : BB :=
  match c with
  | .white => tabGet Gen.wpawnTab s.val
  | .black => tabGet Gen.bpawnTab s.val

/-- global index into `MAGIC_LOOKUP_ROOK` touched by `attack::rook` -/
def rookIndex (s : Sq) (occ : BB) : Nat :=
  let mask := tabGet Gen.rookMask s.val
  let magic := tabGet Gen.rookMagic s.val
  let shift := (tabGet Gen.rookShift s.val).toNat
  (tabGet Gen.rookOff s.val).toNat + (((occ &&& mask) * magic) >>> shift).toNat

def rookLookupAt (g : Nat) : BB := tabGet (Gen.rookChunk (g / Gen.chunkSize)) (g % Gen.chunkSize)

/-- `attack::rook` -/
def rookAttack (s : Sq) (occ : BB) : BB :=
  rookLookupAt (rookIndex s occ) &&& tabGet Gen.rookPost s.val

def bishopIndex (s : Sq) (occ : BB) : Nat :=
  let mask := tabGet Gen.bishopMask s.val
  let magic := tabGet Gen.bishopMagic s.val
  let shift := (tabGet Gen.bishopShift s.val).toNat
  (tabGet Gen.bishopOff s.val).toNat + (((occ &&& mask) * magic) >>> shift).toNat

def bishopLookupAt (g : Nat) : BB := tabGet (Gen.bishopChunk (g / Gen.chunkSize)) (g % Gen.chunkSize)

/-- `attack::bishop` -/
def bishopAttack (s : Sq) (occ : BB) : BB :=
  bishopLookupAt (bishopIndex s occ) &&& tabGet Gen.bishopPost s.val

/-- `between::sort` -/
def sortPair (a b : Sq) : Sq × Sq := if a.val < b.val then (a, b) else (b, a)

/-- `between::bishop_strict` -/
def bishopStrict (a b : Sq) : BB :=
  let p := sortPair a b
  tabGet Gen.bishopGT p.1.val &&& tabGet Gen.bishopLT p.2.val
/-- `between::rook_strict` -/
def rookStrict (a b : Sq) : BB :=
  let p := sortPair a b
  tabGet Gen.rookGT p.1.val &&& tabGet Gen.rookLT p.2.val
/-- `between::is_bishop_valid` -/
def isBishopValid (a b : Sq) : Bool := (tabGet Gen.bishopNE a.val).has b
/-- `between::is_rook_valid` -/
def isRookValid (a b : Sq) : Bool := (tabGet Gen.rookNE a.val).has b

/-- `bitboard_consts::rank` -/
def rankBB (r : Fin 8) : BB := tabGet Gen.rankTab r.val
/-- `bitboard_consts::file` -/
def fileBB (f : Fin 8) : BB := tabGet Gen.fileTab f.val
def lightSquares : BB := BB.ofNat Gen.lightSquares
def darkSquares : BB := BB.ofNat Gen.darkSquares

def fin8 (n : Nat) : Fin 8 := ⟨n % 8, Nat.mod_lt _ (by decide)⟩

-- geometry.rs
def castlingRank : Color → Fin 8
  | .white => fin8 Gen.castlingRankW | .black => fin8 Gen.castlingRankB
def doubleSrcRank : Color → Fin 8
  | .white => fin8 Gen.doubleSrcRankW | .black => fin8 Gen.doubleSrcRankB
def doubleDstRank : Color → Fin 8
  | .white => fin8 Gen.doubleDstRankW | .black => fin8 Gen.doubleDstRankB
def promoteSrcRank : Color → Fin 8
  | .white => fin8 Gen.promoteSrcRankW | .black => fin8 Gen.promoteSrcRankB
def promoteDstRank : Color → Fin 8
  | .white => fin8 Gen.promoteDstRankW | .black => fin8 Gen.promoteDstRankB
def epSrcRank : Color → Fin 8
  | .white => fin8 Gen.epSrcRankW | .black => fin8 Gen.epSrcRankB
def epDstRank : Color → Fin 8
  | .white => fin8 Gen.epDstRankW | .black => fin8 Gen.epDstRankB
def forwardDelta : Color → Int
  | .white => Gen.forwardDeltaW | .black => Gen.forwardDeltaB
def leftDelta : Color → Int
  | .white => Gen.leftDeltaW | .black => Gen.leftDeltaB
def rightDelta : Color → Int
  | .white => Gen.rightDeltaW | .black => Gen.rightDeltaB

def shiftBy (right : Bool) (by_ : Nat) (b : BB) : BB := if right then b >>> by_ else b <<< by_

/-- `pawns::advance_forward` -/
def advanceForward (c : Color) (b : BB) : BB :=
  match c with
  | .white => shiftBy Gen.advForwardWRight Gen.advForwardWBy b
  | .black => shiftBy Gen.advForwardBRight Gen.advForwardBBy b
/-- `pawns::advance_left` -/
def advanceLeft (c : Color) (b : BB) : BB :=
  let b := b &&& ~~~ fileBB (fin8 Gen.advLeftMaskFile)
  match c with
  | .white => shiftBy Gen.advLeftWRight Gen.advLeftWBy b
  | .black => shiftBy Gen.advLeftBRight Gen.advLeftBBy b
/-- `pawns::advance_right` -/
def advanceRight (c : Color) (b : BB) : BB :=
  let b := b &&& ~~~ fileBB (fin8 Gen.advRightMaskFile)
  match c with
  | .white => shiftBy Gen.advRightWRight Gen.advRightWBy b
  | .black => shiftBy Gen.advRightBRight Gen.advRightBBy b

-- castling.rs
def castlingOffset : Color → Nat
  | .white => Gen.castlingOffsetW | .black => Gen.castlingOffsetB
def castlingPass (c : Color) (s : Side) : BB :=
  BB.ofNat ((match s with | .king => Gen.passK | .queen => Gen.passQ) <<< castlingOffset c)
def castlingSrcs (c : Color) (s : Side) : BB :=
  BB.ofNat ((match s with | .king => Gen.srcsK | .queen => Gen.srcsQ) <<< castlingOffset c)
def castlingAllSrcs : BB := BB.ofNat Gen.allSrcs
/-- `generic::Color::CASTLING_OFFSET` -/
def genericOffset : Color → Nat
  | .white => Gen.genericOffsetW | .black => Gen.genericOffsetB

end Owl.Impl
