/-
Implementation model: legality checker, move generators, has_legal_moves, SAN candidate generators.
rust: chess/src/legal.rs (DefaultPrechecker, Checker), chess/src/movegen.rs (MoveGenImpl, semilegal::*,
      legal::*, has_legal_moves, san_candidates, san_pawn_capture_candidates)
`DefaultPrechecker::is_legal_pre` follows the repaired code (en passant is never short-cut), DESIGN §7 D1.
-/
import OwlModel.Impl.Moves

namespace Owl.Impl
open Owl

/-- `DefaultPrechecker::bishop_xray` -/
def bishopXray (b : Board) (ours : BB) (king : Sq) : BB :=
  let near := bishopAttack king b.all &&& ours
  bishopAttack king (b.all ^^^ near)
/-- `DefaultPrechecker::rook_xray` -/
def rookXray (b : Board) (ours : BB) (king : Sq) : BB :=
  let near := rookAttack king b.all &&& ours
  rookAttack king (b.all ^^^ near)

/-- `DefaultPrechecker::pinned` -/
def pinned (b : Board) (side : Color) (king : Sq) : BB :=
  let ours := b.color side
  let p1 := (bishopXray b ours king &&& b.pieceDiag side.inv).toList.foldl
    (fun acc p => acc ||| (bishopStrict p king &&& ours)) 0#64
  (rookXray b ours king &&& b.pieceLine side.inv).toList.foldl
    (fun acc p => acc ||| (rookStrict p king &&& ours)) p1

/-- `PrecheckData` -/
inductive Pre
  | nil                       -- `NilPrechecker`
  | check                     -- `PrecheckData::Check`
  | notCheck (pinnedOrKing : BB)

/-- `Prechecker::is_legal_pre` -/
def Pre.isLegalPre (p : Pre) (mv : Move) : Option Bool :=
  match p with
  | .nil => none
  | .check => none
  | .notCheck pk => if !pk.has mv.src && mv.kind ≠ .ep then some true else none

/-- `Checker` (board, prechecker, `inv`, `king`) -/
structure Checker where
  b : Board
  pre : Pre
  inv : Color
  king : Sq

/-- `Checker::is_attacked` -/
def Checker.isAttacked (ck : Checker) (pos : Sq) (all mask : BB) : Bool :=
  let inv := ck.inv
  let b := ck.b
  let pawnAttacks := pawnAttack inv.inv pos
  if (b.piece2 inv .pawn &&& pawnAttacks &&& mask).nonEmpty
      || (b.piece2 inv .king &&& kingAttack pos &&& mask).nonEmpty
      || (b.piece2 inv .knight &&& knightAttack pos &&& mask).nonEmpty then true
  else (bishopAttack pos all &&& b.pieceDiag inv &&& mask).nonEmpty
      || (rookAttack pos all &&& b.pieceLine inv &&& mask).nonEmpty

/-- `Checker::is_legal` -/
def Checker.isLegal (ck : Checker) (mv : Move) : Bool :=
  match ck.pre.isLegalPre mv with
  | some ok => ok
  | none =>
    let src := BB.single mv.src
    let dst := BB.single mv.dst
    if mv.src = ck.king then
      !ck.isAttacked mv.dst (ck.b.all ^^^ src) (BitVec.allOnes 64)
    else
      let all := (ck.b.all ^^^ src) ||| dst
      let mask := ~~~ dst
      if mv.kind = .ep then
        let tmp := advanceForward ck.inv dst
        !ck.isAttacked ck.king (all ^^^ tmp) (mask ^^^ tmp)
      else !ck.isAttacked ck.king all mask

/-- `DefaultPrechecker::new`; `none` = `king_pos` would panic -/
def defaultPre? (b : Board) : Option Pre :=
  match isCheck? b with
  | none => none
  | some true => some .check
  | some false =>
    match b.kingPos? b.r.side with
    | none => none
    | some king => some (.notCheck (pinned b b.r.side king ||| BB.single king))

/-- `Checker::new(b, pre)` -/
def mkChecker? (b : Board) (pre : Pre) : Option Checker :=
  match b.kingPos? b.r.side with
  | none => none
  | some k => some { b := b, pre := pre, inv := b.r.side.inv, king := k }

/-- `Checker::new(b, DefaultPrechecker::new(b))` -/
def defaultChecker? (b : Board) : Option Checker :=
  match defaultPre? b with
  | none => none
  | some pre => mkChecker? b pre

/-- `Move::is_legal_unchecked` -/
def isLegalUnchecked? (b : Board) (mv : Move) : Option Bool :=
  (mkChecker? b .nil).map fun ck => ck.isLegal mv

inductive MoveValidateError | notSemiLegal | notLegal
  deriving DecidableEq, Repr

/-- `Move::validate` -/
def validateMove (b : Board) (mv : Move) : Res MoveValidateError Unit :=
  if !isSemilegal b mv then .err .notSemiLegal
  else match isLegalUnchecked? b mv with
    | none => .trap "king_pos unwrap in Checker::new"
    | some true => .ok ()
    | some false => .err .notLegal

/-! ### MoveGenImpl (colour `c` = side to move) -/

def mkMove (c : Color) (k : Kind) (p : Piece) (s d : Sq) : Move := ⟨k, Cell.mk c p, s, d⟩

/-- `add_pawn_with_promote::<IS_PROMOTE>` -/
def addPawnWithPromote (c : Color) (isPromote : Bool) (s d : Sq) : List Move :=
  if isPromote then
    [mkMove c .promN .pawn s d, mkMove c .promB .pawn s d, mkMove c .promR .pawn s d, mkMove c .promQ .pawn s d]
  else [mkMove c .simple .pawn s d]

/-- `do_gen_pawn_single::<IS_PROMOTE>` -/
def genPawnSingle (b : Board) (c : Color) (isPromote : Bool) (pawns : BB) : List Move :=
  (advanceForward c pawns &&& ~~~ b.all).toList.flatMap fun dst =>
    addPawnWithPromote c isPromote (addU dst (-(forwardDelta c))) dst

/-- `do_gen_pawn_double` -/
def genPawnDouble (b : Board) (c : Color) (pawns : BB) : List Move :=
  let tmp := advanceForward c pawns &&& ~~~ b.all
  (advanceForward c tmp &&& ~~~ b.all).toList.map fun dst =>
    mkMove c .double .pawn (addU dst (-(2 * forwardDelta c))) dst

/-- `do_gen_pawn_capture::<IS_PROMOTE>` -/
def genPawnCaptureOf (b : Board) (c : Color) (isPromote : Bool) (pawns : BB) : List Move :=
  let allowed := b.color c.inv
  ((advanceLeft c pawns &&& allowed).toList.flatMap fun dst =>
      addPawnWithPromote c isPromote (addU dst (-(leftDelta c))) dst)
  ++ ((advanceRight c pawns &&& allowed).toList.flatMap fun dst =>
      addPawnWithPromote c isPromote (addU dst (-(rightDelta c))) dst)

/-- `gen_pawn_simple::<NON_PROMOTE, PROMOTE>` -/
def genPawnSimple (b : Board) (c : Color) (nonPromote promote : Bool) : List Move :=
  let promoteMask := rankBB (promoteSrcRank c)
  let doubleMask := rankBB (doubleSrcRank c)
  let pawns := b.piece2 c .pawn
  (if nonPromote then
      genPawnSingle b c false (pawns &&& ~~~ promoteMask) ++ genPawnDouble b c (pawns &&& doubleMask)
    else [])
  ++ (if promote then genPawnSingle b c true (pawns &&& promoteMask) else [])

/-- `gen_pawn_capture` -/
def genPawnCapture (b : Board) (c : Color) : List Move :=
  let promoteMask := rankBB (promoteSrcRank c)
  let pawns := b.piece2 c .pawn
  genPawnCaptureOf b c false (pawns &&& ~~~ promoteMask) ++ genPawnCaptureOf b c true (pawns &&& promoteMask)

/-- `gen_pawn_enpassant` -/
def genPawnEnpassant (b : Board) (c : Color) : List Move :=
  match b.r.ep with
  | none => []
  | some ep =>
    let file := ep.file
    let dst := addU ep (forwardDelta c)
    let pawn := Cell.mk c .pawn
    let leftPawn := addU ep (-1)
    let rightPawn := addU ep 1
    (if file ≠ fileA && b.get leftPawn = pawn then [mkMove c .ep .pawn leftPawn dst] else [])
    ++ (if file ≠ fileH && b.get rightPawn = pawn then [mkMove c .ep .pawn rightPawn dst] else [])

/-- `allowed_mask::<SIMPLE, CAPTURE>` -/
def allowedMask (b : Board) (c : Color) (simple capture : Bool) : BB :=
  match simple, capture with
  | true, true => ~~~ b.color c
  | true, false => ~~~ b.all
  | false, true => b.color c.inv
  | false, false => 0#64

/-- `do_gen_kn` (p = knight or king) -/
def genKN (b : Board) (c : Color) (simple capture : Bool) (p : Piece) : List Move :=
  let allowed := allowedMask b c simple capture
  (b.piece2 c p).toList.flatMap fun src =>
    let attack := match p with
      | .knight => knightAttack src
      | _ => kingAttack src
    (attack &&& allowed).toList.map fun dst => mkMove c .simple p src dst

/-- `do_gen_brq::<SIMPLE, CAPTURE, IS_DIAG, IS_LINE>` -/
def genBRQOf (b : Board) (c : Color) (simple capture isDiag isLine : Bool) (p : Piece) : List Move :=
  let allowed := allowedMask b c simple capture
  (b.piece2 c p).toList.flatMap fun src =>
    let attack := match isDiag, isLine with
      | true, true => bishopAttack src b.all ||| rookAttack src b.all
      | true, false => bishopAttack src b.all
      | false, true => rookAttack src b.all
      | false, false => 0#64
    (attack &&& allowed).toList.map fun dst => mkMove c .simple p src dst

/-- `gen_brq` -/
def genBRQ (b : Board) (c : Color) (simple capture : Bool) : List Move :=
  genBRQOf b c simple capture true false .bishop
  ++ genBRQOf b c simple capture false true .rook
  ++ genBRQOf b c simple capture true true .queen

/-- `gen_castling` -/
def genCastling (b : Board) (c : Color) : List Move :=
  if !rHasColor b.r.castling c then []
  else
    let rank := castlingRank c
    (if rHas b.r.castling c .king then
      let pass := castlingPass c .king
      let src := Sq.mk fileE rank
      let tmp := Sq.mk fileF rank
      let dst := Sq.mk fileG rank
      if (pass &&& b.all).isEmpty && !isCellAttacked b src c.inv && !isCellAttacked b tmp c.inv then
        [mkMove c .castleK .king src dst] else []
     else [])
    ++ (if rHas b.r.castling c .queen then
      let pass := castlingPass c .queen
      let src := Sq.mk fileE rank
      let tmp := Sq.mk fileD rank
      let dst := Sq.mk fileC rank
      if (pass &&& b.all).isEmpty && !isCellAttacked b src c.inv && !isCellAttacked b tmp c.inv then
        [mkMove c .castleQ .king src dst] else []
     else [])

/-- `gen::<SIMPLE, CAPTURE, SIMPLE_PROMOTE, CASTLING>` -/
def genWith (b : Board) (c : Color) (simple capture simplePromote castling : Bool) : List Move :=
  (if simple || simplePromote then genPawnSimple b c simple simplePromote else [])
  ++ (if capture then genPawnCapture b c ++ genPawnEnpassant b c else [])
  ++ genKN b c simple capture .knight
  ++ genKN b c simple capture .king
  ++ genBRQ b c simple capture
  ++ (if castling then genCastling b c else [])

/-- which of the five public generators -/
inductive Which | all | capture | simple | simpleNoPromote | simplePromote
  deriving DecidableEq, Repr

/-- `semilegal::gen_*` -/
def semilegalGen (w : Which) (b : Board) : List Move :=
  let c := b.r.side
  match w with
  | .all => genWith b c true true true true
  | .capture => genWith b c false true false false
  | .simple => genWith b c true false true true
  | .simpleNoPromote => genWith b c true false false true
  | .simplePromote => genWith b c false false true false

/-- `legal::gen_*`; `none` = `king_pos` panic -/
def legalGen? (w : Which) (b : Board) : Option (List Move) :=
  (defaultChecker? b).map fun ck => (semilegalGen w b).filter ck.isLegal

/-- `gen_for_has_legal_moves` -/
def genForHasLegalMoves (b : Board) (c : Color) : List Move :=
  genKN b c true true .king
  ++ genBRQ b c true true
  ++ genKN b c true true .knight
  ++ genPawnSimple b c true true
  ++ genPawnCapture b c
  ++ genPawnEnpassant b c

/-- `movegen::has_legal_moves` -/
def hasLegalMoves? (b : Board) : Option Bool :=
  (defaultChecker? b).map fun ck => (genForHasLegalMoves b b.r.side).any ck.isLegal

/-- `MoveGenImpl::san_candidates` behind `LegalFilter`; piece ≠ pawn (pawn panics → `none`) -/
def sanCandidates? (b : Board) (piece : Piece) (dst : Sq) : Option (List Move) :=
  match defaultChecker? b with
  | none => none
  | some ck =>
    let c := b.r.side
    if (b.get dst).color = some c then some []
    else
      let mask? : Option BB := match piece with
        | .pawn => none
        | .king => some (kingAttack dst)
        | .knight => some (knightAttack dst)
        | .bishop => some (bishopAttack dst b.all)
        | .rook => some (rookAttack dst b.all)
        | .queen => some (bishopAttack dst b.all ||| rookAttack dst b.all)
      mask?.map fun mask =>
        ((mask &&& b.piece2 c piece).toList.map fun src => mkMove c .simple piece src dst).filter ck.isLegal

/-- promote piece → kind (`MoveKind::from(PromotePiece)`) -/
def promoteKind : Piece → Kind
  | .knight => .promN | .bishop => .promB | .rook => .promR | _ => .promQ

/-- `MoveGenImpl::san_pawn_capture_candidates` behind `LegalFilter` -/
def sanPawnCaptureCandidates? (b : Board) (src dst : Fin 8) (promote : Option Piece) : Option (List Move) :=
  (defaultChecker? b).map fun ck =>
    let c := b.r.side
    let promoteMask := rankBB (promoteSrcRank c)
    let pawnMask := match promote with | some _ => promoteMask | none => ~~~ promoteMask
    let pawns := b.piece2 c .pawn &&& pawnMask &&& fileBB src
    let allowed := b.color c.inv
    let kind := match promote with | some p => promoteKind p | none => .simple
    let l1 := if src.val = dst.val + 1 then
        (advanceLeft c pawns &&& allowed).toList.map fun d => mkMove c kind .pawn (addU d (-(leftDelta c))) d
      else []
    let l2 := if src.val + 1 = dst.val then
        (advanceRight c pawns &&& allowed).toList.map fun d => mkMove c kind .pawn (addU d (-(rightDelta c))) d
      else []
    let l3 := match b.r.ep with
      | none => []
      | some ep =>
        if ep.file = dst && promote.isNone then
          let dstCoord := addU ep (forwardDelta c)
          let pawn := Cell.mk c .pawn
          let leftPawn := addU ep (-1)
          let rightPawn := addU ep 1
          (if src.val + 1 = dst.val && b.get leftPawn = pawn then [mkMove c .ep .pawn leftPawn dstCoord] else [])
          ++ (if src.val = dst.val + 1 && b.get rightPawn = pawn then [mkMove c .ep .pawn rightPawn dstCoord] else [])
        else []
    (l1 ++ l2 ++ l3).filter ck.isLegal

end Owl.Impl
