-- This module serves as the root of the `OwlModel` library.
-- Import modules here that should be built as part of the library.
import OwlModel.Basic
