import OwlModel.Driver.Dispatch
open Owl.Drv

/-- usage: owldrv cases.txt impl.txt model.txt -/
def main (args : List String) : IO UInt32 := do
  match args with
  | [casesPath, implPath, outPath] =>
    let cases ← IO.FS.lines casesPath
    let impls ← IO.FS.lines implPath
    let h ← IO.FS.Handle.mk outPath .write
    let mut i := 0
    for line in cases do
      let impl := impls.getD i ""
      let (m, s) := answer line impl
      h.putStrLn (m ++ "\t" ++ s)
      i := i + 1
    h.flush
    return 0
  | _ =>
    IO.eprintln "usage: owldrv cases.txt impl.txt model.txt"
    return 2
