//! Measured distribution of the generated cases, written as JSON

use owlchess::types::Color;
use owlchess::Board;
use std::collections::BTreeMap;
use std::fmt::Write;

#[derive(Default)]
pub struct Stats {
    pub prop: String,
    pub tier: String,
    pub seed: u64,
    pub scale: f64,
    pub total: u64,
    pub bytes: u64,
    pub ops: BTreeMap<String, u64>,
    pub positions: u64,
    pub men_white: [u64; 17],
    pub men_black: [u64; 17],
    pub in_check: u64,
    pub with_ep: u64,
    pub with_rights: u64,
    pub white_to_move: u64,
    pub rights_hist: [u64; 16],
    pub mc_hist: BTreeMap<String, u64>,
    pub families: BTreeMap<String, u64>,
    pub move_kinds: [u64; 10],
    pub str_len: BTreeMap<String, u64>,
    pub chain_scripts: u64,
    pub chain_steps: BTreeMap<String, u64>,
    pub chain_len: BTreeMap<String, u64>,
    pub chain_final_moves: BTreeMap<String, u64>,
    pub chain_obs: BTreeMap<String, u64>,
    pub misc: BTreeMap<String, u64>,
}

fn bucket(n: usize) -> String {
    match n {
        0..=8 => format!("{:02}", n),
        9..=16 => "09-16".to_string(),
        17..=32 => "17-32".to_string(),
        33..=64 => "33-64".to_string(),
        65..=128 => "65-128".to_string(),
        129..=1024 => "129-1024".to_string(),
        _ => ">1024".to_string(),
    }
}

fn len_bucket(n: usize) -> String {
    match n {
        0..=9 => format!("000-009"),
        10..=19 => format!("010-019"),
        20..=39 => format!("020-039"),
        40..=59 => format!("040-059"),
        60..=99 => format!("060-099"),
        100..=199 => format!("100-199"),
        _ => format!("200+"),
    }
}

fn mc_bucket(mc: u16) -> &'static str {
    match mc {
        0 => "0",
        1..=48 => "1-48",
        49..=50 => "49-50",
        51..=97 => "51-97",
        98..=101 => "98-101",
        102..=147 => "102-147",
        148..=151 => "148-151",
        152..=65533 => "152-65533",
        _ => "65534-65535",
    }
}

impl Stats {
    pub fn op(&mut self, key: &str) {
        *self.ops.entry(key.to_string()).or_insert(0) += 1;
    }

    pub fn bump(&mut self, key: &str) {
        *self.misc.entry(key.to_string()).or_insert(0) += 1;
    }

    pub fn add(&mut self, key: &str, n: u64) {
        *self.misc.entry(key.to_string()).or_insert(0) += n;
    }

    pub fn pos(&mut self, b: &Board, family: &str) {
        self.positions += 1;
        let w = b.color(Color::White).len() as usize;
        let k = b.color(Color::Black).len() as usize;
        self.men_white[w.min(16)] += 1;
        self.men_black[k.min(16)] += 1;
        if b.is_check() {
            self.in_check += 1;
        }
        if b.raw().ep_source.is_some() {
            self.with_ep += 1;
        }
        let r = b.raw().castling.index();
        if r != 0 {
            self.with_rights += 1;
        }
        self.rights_hist[r] += 1;
        if b.side() == Color::White {
            self.white_to_move += 1;
        }
        *self
            .mc_hist
            .entry(mc_bucket(b.raw().move_counter).to_string())
            .or_insert(0) += 1;
        *self.families.entry(family.to_string()).or_insert(0) += 1;
    }

    pub fn family_only(&mut self, family: &str) {
        *self.families.entry(family.to_string()).or_insert(0) += 1;
    }

    pub fn mv_kind(&mut self, k: u8) {
        self.move_kinds[k as usize % 10] += 1;
    }

    pub fn string(&mut self, s: &str) {
        *self.str_len.entry(bucket(s.len())).or_insert(0) += 1;
    }

    pub fn chain(&mut self, steps: &[String], final_moves: usize, obs: &BTreeMap<String, u64>) {
        self.chain_scripts += 1;
        for (k, v) in obs {
            *self.chain_obs.entry(k.clone()).or_insert(0) += v;
        }
        *self.chain_len.entry(len_bucket(steps.len())).or_insert(0) += 1;
        *self
            .chain_final_moves
            .entry(len_bucket(final_moves))
            .or_insert(0) += 1;
        for s in steps {
            let mut k = s.split(' ').next().unwrap_or("").to_string();
            if k == "auto" || k == "sty" {
                k = s.split(' ').take(2).collect::<Vec<_>>().join(" ");
            }
            *self.chain_steps.entry(k).or_insert(0) += 1;
        }
    }

    pub fn to_json(&self) -> String {
        fn map(m: &BTreeMap<String, u64>) -> String {
            let v: Vec<String> = m.iter().map(|(k, v)| format!("\"{}\": {}", esc(k), v)).collect();
            format!("{{{}}}", v.join(", "))
        }
        fn arr(a: &[u64]) -> String {
            let v: Vec<String> = a.iter().map(|x| x.to_string()).collect();
            format!("[{}]", v.join(", "))
        }
        fn esc(s: &str) -> String {
            s.replace('\\', "\\\\").replace('"', "\\\"")
        }
        fn share(n: u64, d: u64) -> String {
            if d == 0 {
                "0".to_string()
            } else {
                format!("{:.4}", n as f64 / d as f64)
            }
        }
        let mut s = String::new();
        let _ = writeln!(s, "{{");
        let _ = writeln!(s, "  \"prop\": \"{}\",", esc(&self.prop));
        let _ = writeln!(s, "  \"tier\": \"{}\",", esc(&self.tier));
        let _ = writeln!(s, "  \"seed\": {},", self.seed);
        let _ = writeln!(s, "  \"scale\": {},", self.scale);
        let _ = writeln!(s, "  \"cases\": {},", self.total);
        let _ = writeln!(s, "  \"case_bytes\": {},", self.bytes);
        let _ = writeln!(s, "  \"ops\": {},", map(&self.ops));
        let _ = writeln!(s, "  \"positions\": {{");
        let _ = writeln!(s, "    \"count\": {},", self.positions);
        let _ = writeln!(s, "    \"families\": {},", map(&self.families));
        let _ = writeln!(s, "    \"men_white_hist\": {},", arr(&self.men_white));
        let _ = writeln!(s, "    \"men_black_hist\": {},", arr(&self.men_black));
        let _ = writeln!(s, "    \"in_check\": {},", self.in_check);
        let _ = writeln!(
            s,
            "    \"in_check_share\": {},",
            share(self.in_check, self.positions)
        );
        let _ = writeln!(s, "    \"with_ep\": {},", self.with_ep);
        let _ = writeln!(
            s,
            "    \"with_ep_share\": {},",
            share(self.with_ep, self.positions)
        );
        let _ = writeln!(s, "    \"with_rights\": {},", self.with_rights);
        let _ = writeln!(
            s,
            "    \"with_rights_share\": {},",
            share(self.with_rights, self.positions)
        );
        let _ = writeln!(s, "    \"rights_hist\": {},", arr(&self.rights_hist));
        let _ = writeln!(s, "    \"white_to_move\": {},", self.white_to_move);
        let _ = writeln!(s, "    \"move_counter_hist\": {}", map(&self.mc_hist));
        let _ = writeln!(s, "  }},");
        let _ = writeln!(
            s,
            "  \"move_kinds_sent\": {{\"Null\": {}, \"Simple\": {}, \"CastlingKingside\": {}, \"CastlingQueenside\": {}, \"PawnDouble\": {}, \"Enpassant\": {}, \"PromoteKnight\": {}, \"PromoteBishop\": {}, \"PromoteRook\": {}, \"PromoteQueen\": {}}},",
            self.move_kinds[0],
            self.move_kinds[1],
            self.move_kinds[2],
            self.move_kinds[3],
            self.move_kinds[4],
            self.move_kinds[5],
            self.move_kinds[6],
            self.move_kinds[7],
            self.move_kinds[8],
            self.move_kinds[9]
        );
        let _ = writeln!(s, "  \"string_length_hist\": {},", map(&self.str_len));
        let _ = writeln!(s, "  \"chains\": {{");
        let _ = writeln!(s, "    \"scripts\": {},", self.chain_scripts);
        let _ = writeln!(s, "    \"step_kinds\": {},", map(&self.chain_steps));
        let _ = writeln!(s, "    \"script_length_hist\": {},", map(&self.chain_len));
        let _ = writeln!(
            s,
            "    \"final_chain_length_hist\": {},",
            map(&self.chain_final_moves)
        );
        let _ = writeln!(s, "    \"observations\": {}", map(&self.chain_obs));
        let _ = writeln!(s, "  }},");
        let _ = writeln!(s, "  \"misc\": {}", map(&self.misc));
        let _ = writeln!(s, "}}");
        s
    }
}
