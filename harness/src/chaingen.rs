//! Chain script generator (family F7). The generator drives the real `MoveChain` through
//! the same interpreter that `run` uses, so it always knows which moves are legal.

use crate::chainops::ChainSim;
use crate::codec::{self, mv4_fmt, mv_fmt, str_enc};
use crate::posgen::{self, is_interesting, safe_make, true_legal_moves, Pos};
use crate::rng::Rng;
use crate::strgen;
use owlchess::movegen::semilegal;
use owlchess::moves::{Move, MoveKind};
use owlchess::types::Piece;
use owlchess::Board;
use std::collections::BTreeMap;
use std::panic::{catch_unwind, AssertUnwindSafe};

#[derive(Clone, Copy, PartialEq, Eq, Debug)]
pub enum Flavor {
    PushPop,
    DeepNest,
    Hash,
    General,
    Repetition,
    Print,
    JunkList,
}

pub struct Script {
    pub line: String,
    pub steps: Vec<String>,
    pub final_len: usize,
    /// "step kind -> observation class" counts, as seen by the generator's own simulation
    pub obs: BTreeMap<String, u64>,
}

struct G<'a> {
    rng: &'a mut Rng,
    sim: ChainSim,
    steps: Vec<String>,
    obs: BTreeMap<String, u64>,
    max: usize,
    /// probability (percent) of an `st` after a step
    st_pct: u64,
}

const ACTIONS: usize = 18;

fn weights(f: Flavor) -> [u32; ACTIONS] {
    // push_legal, push_bad, pop, special_pop, fail_after_pop, shuffle,
    // calc, auto, so, co, ro, clone, swap, eq, w, uci, rebuild, sty
    match f {
        Flavor::PushPop => [40, 15, 15, 8, 6, 2, 2, 1, 1, 1, 1, 0, 0, 0, 0, 0, 0, 0],
        Flavor::DeepNest => [35, 5, 25, 8, 5, 2, 1, 1, 1, 1, 1, 1, 1, 1, 12, 0, 0, 0],
        Flavor::Hash => [45, 8, 15, 10, 5, 4, 1, 1, 1, 1, 1, 1, 1, 1, 2, 0, 0, 0],
        Flavor::General => [45, 10, 10, 6, 5, 4, 3, 3, 3, 2, 2, 4, 3, 4, 2, 1, 1, 0],
        Flavor::Repetition => [15, 4, 8, 2, 2, 30, 12, 10, 4, 4, 3, 1, 1, 1, 0, 0, 0, 0],
        Flavor::Print => [40, 4, 6, 2, 1, 3, 2, 3, 3, 1, 1, 1, 1, 1, 12, 6, 6, 10],
        Flavor::JunkList => [20, 50, 6, 1, 4, 1, 1, 1, 1, 1, 1, 0, 0, 0, 0, 1, 1, 0],
    }
}

fn random_outcome_token(rng: &mut Rng) -> String {
    if rng.chance(1, 2) {
        let side = if rng.chance(1, 2) { 'w' } else { 'b' };
        let r = rng.pick(&codec::WIN_REASONS);
        format!("win:{}:{}", side, codec::win_reason_name(*r))
    } else {
        let r = rng.pick(&codec::DRAW_REASONS);
        format!("draw:{}", codec::draw_reason_name(*r))
    }
}

fn san_text(b: &Board, m: Move) -> Option<String> {
    match catch_unwind(AssertUnwindSafe(|| m.san(b).map(|s| s.to_string()))) {
        Ok(Ok(s)) => Some(s),
        _ => None,
    }
}

fn board_is_valid(b: &Board) -> bool {
    Board::try_from(*b.raw()).is_ok()
}

impl<'a> G<'a> {
    fn full(&self) -> bool {
        self.steps.len() >= self.max
    }

    fn emit(&mut self, s: String) -> String {
        let obs = self.sim.step(&s);
        let kind = s.split(' ').next().unwrap_or("");
        if !matches!(kind, "st" | "uci" | "sty") {
            let class = if kind == "w" {
                obs.rsplit(' ').next().unwrap_or("").to_string()
            } else if kind == "pop" && obs != "none" && obs != "panic" {
                "MV".to_string()
            } else if obs.len() <= 48 {
                match obs.find('(') {
                    Some(i) => obs[..i].to_string(),
                    None => obs.clone(),
                }
            } else {
                "long".to_string()
            };
            *self.obs.entry(format!("{} -> {}", kind, class)).or_insert(0) += 1;
        }
        self.steps.push(s);
        obs
    }

    fn maybe_st(&mut self) {
        if !self.full() && self.rng.chance(self.st_pct, 100) {
            self.emit("st".to_string());
        }
    }

    fn step(&mut self, s: String) -> String {
        let o = self.emit(s);
        self.maybe_st();
        o
    }

    fn last(&self) -> Board {
        self.sim.cur.last().clone()
    }

    fn pick_legal(&mut self, b: &Board) -> Option<Move> {
        let moves = true_legal_moves(b);
        if moves.is_empty() {
            return None;
        }
        let inter: Vec<Move> = moves
            .iter()
            .copied()
            .filter(|m| is_interesting(b, m))
            .collect();
        if !inter.is_empty() && self.rng.chance(40, 100) {
            Some(*self.rng.pick(&inter))
        } else {
            Some(*self.rng.pick(&moves))
        }
    }

    /// Text of a push step for a (normally legal) move, in one of the six push kinds
    fn push_text(&mut self, b: &Board, m: Move) -> String {
        match self.rng.weighted(&[30, 12, 18, 12, 18, 10]) {
            0 => format!("pm {}", mv_fmt(&m)),
            1 => format!("pU {}", str_enc(&m.to_string())),
            2 => format!("pu {}", str_enc(&m.to_string())),
            k @ (3 | 4) => match san_text(b, m) {
                Some(mut s) => {
                    if self.rng.chance(15, 100) {
                        let vars = strgen::san_variants(&s);
                        if !vars.is_empty() {
                            s = self.rng.pick(&vars).clone();
                        }
                    }
                    format!("{} {}", if k == 3 { "pS" } else { "ps" }, str_enc(&s))
                }
                None => format!("pu {}", str_enc(&m.to_string())),
            },
            _ => {
                // a list of 1..4 legal moves
                let n = 1 + self.rng.usize(4);
                let mut toks = vec![m.to_string()];
                let mut cur = safe_make(b, m);
                for _ in 1..n {
                    let nb = match &cur {
                        Some(x) => x.clone(),
                        None => break,
                    };
                    match self.pick_legal(&nb) {
                        Some(m2) => {
                            toks.push(m2.to_string());
                            cur = safe_make(&nb, m2);
                        }
                        None => break,
                    }
                }
                let sep = if self.rng.chance(1, 8) { "  " } else { " " };
                let mut text = toks.join(sep);
                if self.rng.chance(1, 10) {
                    text = format!(" {} ", text);
                }
                format!("pl {}", str_enc(&text))
            }
        }
    }

    fn ensure_open(&mut self) -> bool {
        // returns false when the push should go ahead on a finished chain (expects `skip`)
        if self.sim.cur.is_finished() {
            if self.rng.chance(1, 4) {
                return false;
            }
            if self.rng.chance(1, 2) {
                self.step("co".to_string());
            } else if self.rng.chance(1, 2) {
                self.step("ro none".to_string());
            } else {
                self.step("pop".to_string());
                if self.sim.cur.is_finished() {
                    self.step("co".to_string());
                }
            }
        }
        true
    }

    fn act_push_legal(&mut self) {
        self.ensure_open();
        let b = self.last();
        match self.pick_legal(&b) {
            Some(m) => {
                let t = self.push_text(&b, m);
                self.step(t);
            }
            None => {
                // no legal move: look at the outcome, then step back
                self.step("calc".to_string());
                if !self.full() {
                    self.step("pop".to_string());
                }
            }
        }
    }

    fn act_push_bad(&mut self, junk_heavy: bool) {
        self.ensure_open();
        let b = self.last();
        let choice = if junk_heavy {
            self.rng.weighted(&[5, 5, 5, 10, 25, 5, 45])
        } else {
            self.rng.weighted(&[25, 15, 10, 15, 20, 10, 5])
        };
        let t = match choice {
            0 => {
                // semilegal but not legal
                let mut v: Vec<Move> = Vec::new();
                semilegal::gen_all_into(&b, &mut v);
                let bad: Vec<Move> = v
                    .into_iter()
                    .filter(|m| m.validate(&b).is_err())
                    .collect();
                if bad.is_empty() {
                    format!("pm {}", mv4_fmt(posgen::random_wf_move(self.rng, Some(b.side()))))
                } else {
                    let m = *self.rng.pick(&bad);
                    match self.rng.usize(3) {
                        0 => format!("pm {}", mv_fmt(&m)),
                        1 => format!("pu {}", str_enc(&m.to_string())),
                        _ => format!("pU {}", str_enc(&m.to_string())),
                    }
                }
            }
            1 => format!(
                "pm {}",
                mv4_fmt(posgen::random_wf_move(self.rng, Some(b.side())))
            ),
            2 => format!("pm {}", mv4_fmt(posgen::random_tuple(self.rng))),
            3 => {
                let s = strgen::random_uci(self.rng);
                let k = *self.rng.pick(&["pU", "pu", "pl"]);
                format!("{} {}", k, str_enc(&s))
            }
            4 => {
                let s = if self.rng.chance(1, 2) {
                    strgen::random_junk(self.rng)
                } else if self.rng.chance(1, 2) {
                    strgen::random_sanlike(self.rng)
                } else {
                    self.rng.pick(&strgen::required()).clone()
                };
                let k = *self.rng.pick(&["pS", "ps", "pU", "pu", "pl"]);
                format!("{} {}", k, str_enc(&s))
            }
            5 => match self.rng.usize(3) {
                0 => "pm 0.0.0.0".to_string(),
                1 => format!("pu {}", str_enc("0000")),
                _ => format!("pU {}", str_enc("0000")),
            },
            _ => {
                // a list: some legal moves, then junk somewhere
                let mut toks: Vec<String> = Vec::new();
                let mut cur = Some(b.clone());
                let n = self.rng.usize(4);
                for _ in 0..n {
                    let nb = match &cur {
                        Some(x) => x.clone(),
                        None => break,
                    };
                    match self.pick_legal(&nb) {
                        Some(m2) => {
                            toks.push(m2.to_string());
                            cur = safe_make(&nb, m2);
                        }
                        None => break,
                    }
                }
                let junk = match self.rng.usize(5) {
                    0 => strgen::random_junk(self.rng),
                    1 => strgen::random_uci(self.rng),
                    2 => self.rng.pick(&strgen::required()).clone(),
                    3 => "0000".to_string(),
                    _ => strgen::mutate(self.rng, "e2e4"),
                };
                let at = self.rng.usize(toks.len() + 1);
                toks.insert(at, junk);
                let sep = *self.rng.pick(&[" ", " ", "  ", "\t", "\n", " \r\n "]);
                format!("pl {}", str_enc(&toks.join(sep)))
            }
        };
        self.step(t);
    }

    fn act_special_pop(&mut self) {
        self.ensure_open();
        let b = self.last();
        let moves = true_legal_moves(&b);
        let special: Vec<Move> = moves
            .iter()
            .copied()
            .filter(|m| m.kind() != MoveKind::Simple)
            .collect();
        let caps: Vec<Move> = moves
            .iter()
            .copied()
            .filter(|m| b.get(m.dst()).is_occupied())
            .collect();
        let m = if !special.is_empty() {
            *self.rng.pick(&special)
        } else if !caps.is_empty() {
            *self.rng.pick(&caps)
        } else if !moves.is_empty() {
            *self.rng.pick(&moves)
        } else {
            return;
        };
        let t = self.push_text(&b, m);
        self.step(t.clone());
        if !self.full() {
            self.step("pop".to_string());
        }
        if !self.full() && self.rng.chance(1, 2) {
            self.step(t);
        }
    }

    fn act_fail_after_pop(&mut self) {
        self.step("pop".to_string());
        if !self.full() {
            self.act_push_bad(false);
        }
        if !self.full() {
            self.act_push_legal();
        }
    }

    fn reversible(b: &Board, prefer_kr: bool, rng: &mut Rng) -> Option<Move> {
        let moves: Vec<Move> = true_legal_moves(b)
            .into_iter()
            .filter(|m| {
                m.kind() == MoveKind::Simple
                    && m.src_cell().piece() != Some(Piece::Pawn)
                    && b.get(m.dst()).is_free()
            })
            .collect();
        if moves.is_empty() {
            return None;
        }
        if prefer_kr {
            let kr: Vec<Move> = moves
                .iter()
                .copied()
                .filter(|m| {
                    matches!(m.src_cell().piece(), Some(Piece::King) | Some(Piece::Rook))
                })
                .collect();
            if !kr.is_empty() {
                return Some(*rng.pick(&kr));
            }
        }
        Some(*rng.pick(&moves))
    }

    /// a four-move cycle a, b, a⁻¹, b⁻¹ of reversible moves from the current position
    fn find_cycle(&mut self) -> Option<[Move; 4]> {
        let b0 = self.last();
        let prefer_kr = b0.raw().castling.index() != 0 && self.rng.chance(1, 2);
        let rev = |m: &Move| -> Option<Move> {
            Move::new(m.kind(), m.src_cell(), m.dst(), m.src()).ok()
        };
        let ma = match Self::reversible(&b0, prefer_kr, self.rng) {
            Some(m) => m,
            None => return None,
        };
        let b1 = match safe_make(&b0, ma) {
            Some(b) => b,
            None => return None,
        };
        let mb = match Self::reversible(&b1, prefer_kr, self.rng) {
            Some(m) => m,
            None => return None,
        };
        let b2 = match safe_make(&b1, mb) {
            Some(b) => b,
            None => return None,
        };
        let (ma2, mb2) = match (rev(&ma), rev(&mb)) {
            (Some(x), Some(y)) => (x, y),
            _ => return None,
        };
        if ma2.validate(&b2).is_err() {
            return None;
        }
        let b3 = match safe_make(&b2, ma2) {
            Some(b) => b,
            None => return None,
        };
        if mb2.validate(&b3).is_err() {
            return None;
        }
        Some([ma, mb, ma2, mb2])
    }

    /// C14: one position occurring well over five times, then taken back step by step with the calculation
    /// queried on the way down (counts must go down exactly as they went up), then partly replayed
    fn act_deep_repeat(&mut self) {
        self.ensure_open();
        let seq = match self.find_cycle() {
            Some(x) => x,
            None => return,
        };
        let cycles = 5 + self.rng.usize(4);
        let mut pushed = 0usize;
        'outer: for _ in 0..cycles {
            for m in seq {
                if self.full() || self.sim.cur.is_finished() {
                    break 'outer;
                }
                let t = if self.rng.chance(2, 3) {
                    format!("pm {}", mv_fmt(&m))
                } else {
                    format!("pu {}", str_enc(&m.to_string()))
                };
                self.step(t);
                pushed += 1;
            }
            if self.rng.chance(1, 3) {
                self.step("calc".to_string());
            }
        }
        self.step("calc".to_string());
        let pops = 1 + self.rng.usize(pushed.max(1));
        for i in 0..pops {
            self.step("pop".to_string());
            if i + 1 == pops || self.rng.chance(1, 3) {
                self.step("calc".to_string());
            }
        }
        match self.rng.usize(3) {
            0 => {
                self.step("auto s".to_string());
            }
            1 => {
                self.step("auto r".to_string());
            }
            _ => {
                // replay a part of the cycle from wherever the pops stopped
                let off = (pushed - pops.min(pushed)) % 4;
                for k in 0..(1 + self.rng.usize(6)) {
                    if self.sim.cur.is_finished() {
                        break;
                    }
                    let m = seq[(off + k) % 4];
                    self.step(format!("pm {}", mv_fmt(&m)));
                }
                self.step("calc".to_string());
            }
        }
    }

    fn act_shuffle(&mut self) {
        self.ensure_open();
        // optionally start from a double pawn step so that the first occurrence of the
        // position carries an en-passant mark that the later ones lack
        if self.rng.chance(1, 5) {
            let b = self.last();
            let dbl: Vec<Move> = true_legal_moves(&b)
                .into_iter()
                .filter(|m| m.kind() == MoveKind::PawnDouble)
                .collect();
            if !dbl.is_empty() {
                let m = *self.rng.pick(&dbl);
                self.step(format!("pm {}", mv_fmt(&m)));
            }
        }
        let [ma, mb, ma2, mb2] = match self.find_cycle() {
            Some(x) => x,
            None => return,
        };
        let cycles = 1 + self.rng.usize(5);
        let seq = [ma, mb, ma2, mb2];
        'outer: for _ in 0..cycles {
            for m in seq {
                if self.full() || self.sim.cur.is_finished() {
                    break 'outer;
                }
                let t = if self.rng.chance(2, 3) {
                    format!("pm {}", mv_fmt(&m))
                } else {
                    format!("pu {}", str_enc(&m.to_string()))
                };
                self.step(t);
            }
            if self.full() {
                break;
            }
            match self.rng.usize(6) {
                0 => {
                    self.step("calc".to_string());
                }
                1 => {
                    let f = *self.rng.pick(&["f", "s", "r"]);
                    self.step(format!("auto {}", f));
                }
                2 => {
                    // the cycle is out of step after this; leave it
                    self.step("pop".to_string());
                    break;
                }
                _ => {}
            }
        }
        if !self.full() {
            self.step("calc".to_string());
        }
    }

    fn act_walk(&mut self) {
        let n = 1 + self.rng.usize(40);
        let mut s = String::new();
        for _ in 0..n {
            s.push(['n', 'p', 's', 'e'][self.rng.weighted(&[45, 30, 12, 13])]);
        }
        self.step(format!("w {}", s));
    }

    fn act_sty(&mut self) {
        let n = *self.rng.pick(&[
            "o", "b", "b", "c0", "c1", "c7", "c1000", "c65530", "c65535", "c65536", "c100000", "c4294967301",
        ]);
        let s = *self.rng.pick(&["s", "u", "U"]);
        let g = *self.rng.pick(&["s", "h"]);
        self.step(format!("sty {} {} {}", n, s, g));
    }
}

pub fn gen_script(rng: &mut Rng, start: &Pos, flavor: Flavor, max_steps: usize) -> Script {
    // leave slack for the few steps that are emitted in groups and for the closing `st`
    let hi = max_steps.saturating_sub(8).max(4);
    let lo = (hi / 3).max(3);
    let max = lo + rng.usize(hi - lo + 1);
    let st_pct = match flavor {
        Flavor::DeepNest | Flavor::Hash | Flavor::General => 100,
        Flavor::PushPop => 70,
        Flavor::Repetition => 40,
        Flavor::Print => 12,
        Flavor::JunkList => 30,
    };
    let w = weights(flavor);
    crate::set_current(&format!("chain {} ; <script being generated>", start.raw_text()));
    let mut g = G {
        rng,
        sim: ChainSim::new(start.board.clone()),
        steps: Vec::new(),
        obs: BTreeMap::new(),
        max,
        st_pct,
    };
    if st_pct == 100 {
        g.emit("st".to_string());
    }
    // DeepNest: alternate bursts of pushes and pops
    let mut burst: i32 = 0;
    while !g.full() {
        // the known en-passant defect can leave an invalid board behind: record and undo
        if !board_is_valid(g.sim.cur.last()) {
            g.emit("st".to_string());
            g.emit("pop".to_string());
            continue;
        }
        if flavor == Flavor::DeepNest && burst != 0 {
            if burst > 0 {
                g.act_push_legal();
                burst -= 1;
            } else if g.sim.cur.is_empty() && !g.rng.chance(1, 6) {
                burst = 0;
            } else {
                g.step("pop".to_string());
                burst += 1;
            }
            continue;
        }
        match g.rng.weighted(&w) {
            0 => {
                g.act_push_legal();
                if flavor == Flavor::DeepNest && g.rng.chance(1, 3) {
                    burst = 2 + g.rng.usize(10) as i32;
                }
            }
            1 => g.act_push_bad(flavor == Flavor::JunkList),
            2 => {
                if g.sim.cur.is_empty() && !g.rng.chance(1, 5) {
                    g.act_push_legal();
                    continue;
                }
                g.step("pop".to_string());
                if flavor == Flavor::DeepNest && g.rng.chance(1, 3) {
                    burst = -(2 + g.rng.usize(10) as i32);
                }
            }
            3 => g.act_special_pop(),
            4 => g.act_fail_after_pop(),
            5 => g.act_shuffle(),
            6 => {
                g.step("calc".to_string());
            }
            7 => {
                let f = *g.rng.pick(&["f", "s", "r"]);
                g.step(format!("auto {}", f));
            }
            8 => {
                let o = random_outcome_token(g.rng);
                g.step(format!("so {}", o));
            }
            9 => {
                g.step("co".to_string());
            }
            10 => {
                let o = if g.rng.chance(1, 4) {
                    "none".to_string()
                } else {
                    random_outcome_token(g.rng)
                };
                g.step(format!("ro {}", o));
            }
            11 => {
                g.step("clone".to_string());
                if !g.full() {
                    g.step("eq".to_string());
                }
            }
            12 => {
                if g.sim.other.is_none() && g.rng.chance(4, 5) {
                    g.step("clone".to_string());
                    if !g.full() {
                        g.act_push_legal();
                    }
                }
                if !g.full() {
                    g.step("swap".to_string());
                }
            }
            13 => {
                if g.sim.other.is_none() && g.rng.chance(4, 5) {
                    g.step("clone".to_string());
                    if !g.full() && g.rng.chance(1, 2) {
                        g.act_push_legal();
                    }
                }
                if !g.full() {
                    g.step("eq".to_string());
                }
            }
            14 => g.act_walk(),
            15 => {
                g.step("uci".to_string());
            }
            16 => {
                g.step("rebuild".to_string());
            }
            _ => g.act_sty(),
        }
    }
    if flavor == Flavor::Print {
        g.emit("uci".to_string());
        g.emit("rebuild".to_string());
        g.act_sty();
        g.act_walk();
    }
    if g.steps.last().map(|s| s.as_str()) != Some("st") {
        g.emit("st".to_string());
    }
    let final_len = g.sim.cur.len();
    let steps = g.steps;
    let obs = g.obs;
    let line = format!("chain {} ; {}", start.raw_text(), steps.join(" ; "));
    Script {
        line,
        steps,
        final_len,
        obs,
    }
}

/// Equality probes (C13): chains built from a DIFFERENT start position with the same UCI list (`alt`), and
/// reversible cycles from a start whose counters are saturated, each followed by `eq`.
/// C04 / C13: chains that contain null moves (recorded with `push_unchecked`, as search code does), walked back and
/// forth, popped and pushed again. No printed forms (a null move has no SAN).
pub fn gen_null_line(rng: &mut Rng, start: &Pos) -> Script {
    crate::set_current(&format!("chain {} ; <script being generated>", start.raw_text()));
    let mut g = G {
        rng,
        sim: ChainSim::new(start.board.clone()),
        steps: Vec::new(),
        obs: BTreeMap::new(),
        max: 60,
        st_pct: 30,
    };
    g.emit("st".to_string());
    let n = 2 + g.rng.usize(6);
    for _ in 0..n {
        match g.rng.usize(4) {
            0 | 1 => g.act_push_legal(),
            2 => {
                g.step("pn".to_string());
            }
            _ => {
                if !g.sim.cur.is_empty() {
                    g.step("pop".to_string());
                }
            }
        }
    }
    g.step("pn".to_string());
    g.act_push_legal();
    g.step("st".to_string());
    g.act_walk();
    g.step("w sneppnnpspe".to_string());
    for _ in 0..(1 + g.rng.usize(3)) {
        if !g.sim.cur.is_empty() {
            g.step("pop".to_string());
        }
    }
    g.step("st".to_string());
    g.act_push_legal();
    g.act_walk();
    g.emit("st".to_string());
    let final_len = g.sim.cur.len();
    let steps = g.steps;
    let obs = g.obs;
    let line = format!("chain {} ; {}", start.raw_text(), steps.join(" ; "));
    Script { line, steps, final_len, obs }
}

/// C17 / C09: a fixed line of moves from a start position, then the printed forms (all styles) and a walk
pub fn gen_line(rng: &mut Rng, start: &Pos, line: &[Move]) -> Script {
    let pushes: Vec<String> = line.iter().map(|m| format!("pm {}", mv_fmt(m))).collect();
    gen_text_line(rng, start, &pushes)
}

/// the same with the push steps given as script text (`pm …`, `ps …`, `pu …`)
pub fn gen_text_line(rng: &mut Rng, start: &Pos, pushes: &[String]) -> Script {
    let line = pushes;
    let mut steps: Vec<String> = Vec::new();
    for m in line {
        steps.push(m.clone());
    }
    for s in ["s", "u", "U"] {
        let n = *rng.pick(&["o", "b", "c1", "c7"]);
        steps.push(format!("sty {} {} s", n, s));
    }
    steps.push("uci".to_string());
    steps.push("rebuild".to_string());
    steps.push("w sneppn".to_string());
    steps.push("calc".to_string());
    steps.push("st".to_string());
    let l = format!("chain {} ; {}", start.raw_text(), steps.join(" ; "));
    Script {
        line: l,
        final_len: line.len(),
        obs: BTreeMap::new(),
        steps,
    }
}

/// C14 / C07: a quiet finishing move whose result is also a draw by the clock or by material; the calculation and every
/// filter are queried on the chain, then the move is taken back and queried again
pub fn gen_finisher(start: &Pos, m: &Move) -> Script {
    let mut steps: Vec<String> = Vec::new();
    steps.push("calc".to_string());
    steps.push(format!("pm {}", mv_fmt(m)));
    steps.push("calc".to_string());
    steps.push("st".to_string());
    steps.push("clone".to_string());
    steps.push("auto f".to_string());
    steps.push("st".to_string());
    steps.push("swap".to_string());
    steps.push("auto s".to_string());
    steps.push("st".to_string());
    steps.push("co".to_string());
    steps.push("pop".to_string());
    steps.push("calc".to_string());
    steps.push("st".to_string());
    let line = format!("chain {} ; {}", start.raw_text(), steps.join(" ; "));
    Script {
        line,
        final_len: 0,
        obs: BTreeMap::new(),
        steps,
    }
}

/// C14: scripts built around `act_deep_repeat`
pub fn gen_deep_repeat(rng: &mut Rng, start: &Pos) -> Script {
    crate::set_current(&format!("chain {} ; <script being generated>", start.raw_text()));
    let mut g = G {
        rng,
        sim: ChainSim::new(start.board.clone()),
        steps: Vec::new(),
        obs: BTreeMap::new(),
        max: 150,
        st_pct: 10,
    };
    let pre = g.rng.usize(4);
    for _ in 0..pre {
        g.act_push_legal();
    }
    g.act_deep_repeat();
    if g.steps.last().map(|s| s.as_str()) != Some("st") {
        g.emit("st".to_string());
    }
    let final_len = g.sim.cur.len();
    let steps = g.steps;
    let obs = g.obs;
    let line = format!("chain {} ; {}", start.raw_text(), steps.join(" ; "));
    Script {
        line,
        steps,
        final_len,
        obs,
    }
}

pub fn gen_eq_probe(rng: &mut Rng, start0: &Pos) -> Script {
    use owlchess::{Cell, Coord, Piece};
    // variant B: saturate both counters so that a reversible cycle restores the raw position exactly
    let saturated = rng.chance(1, 3);
    let start: Pos = if saturated {
        let mut r = start0.sent;
        r.move_counter = 65535;
        r.move_number = 65535;
        posgen::pos_of(r, start0.fam).unwrap_or_else(|| Pos {
            sent: start0.sent,
            board: start0.board.clone(),
            fam: start0.fam,
        })
    } else {
        Pos {
            sent: start0.sent,
            board: start0.board.clone(),
            fam: start0.fam,
        }
    };
    crate::set_current(&format!("chain {} ; <script being generated>", start.raw_text()));
    let mut g = G {
        rng,
        sim: ChainSim::new(start.board.clone()),
        steps: Vec::new(),
        obs: BTreeMap::new(),
        max: 40,
        st_pct: 0,
    };
    g.emit("st".to_string());
    if saturated {
        g.step("clone".to_string());
        // try to find a four-move reversible cycle a, b, a⁻¹, b⁻¹ of non-pawn, non-capturing simple moves
        let b0 = g.last();
        let mut found = false;
        let l0 = owlchess::movegen::legal::gen_all(&b0);
        'outer: for a in l0.iter().filter(|m| m.kind() == MoveKind::Simple && b0.get(m.dst()).is_free()
            && m.src_cell().piece() != Some(Piece::Pawn)).take(12) {
            let b1 = match b0.make_move(*a) { Ok(x) => x, Err(_) => continue };
            let l1 = owlchess::movegen::legal::gen_all(&b1);
            for bb in l1.iter().filter(|m| m.kind() == MoveKind::Simple && b1.get(m.dst()).is_free()
                && m.src_cell().piece() != Some(Piece::Pawn)).take(12) {
                let b2 = match b1.make_move(*bb) { Ok(x) => x, Err(_) => continue };
                let ar = format!("{}{}", a.dst(), a.src());
                let b3 = match Move::from_uci_legal(&ar, &b2).ok().and_then(|m| b2.make_move(m).ok()) {
                    Some(x) => x, None => continue };
                let br = format!("{}{}", bb.dst(), bb.src());
                if Move::from_uci_legal(&br, &b3).is_ok() {
                    g.step(format!("pu {}", codec::str_enc(&a.uci().to_string())));
                    g.step(format!("pu {}", codec::str_enc(&bb.uci().to_string())));
                    g.step(format!("pu {}", codec::str_enc(&ar)));
                    g.step(format!("pu {}", codec::str_enc(&br)));
                    found = true;
                    break 'outer;
                }
            }
        }
        if !found {
            g.act_push_legal();
        }
        g.step("eq".to_string());
        g.step("swap".to_string());
        g.step("eq".to_string());
    } else {
        let n = 1 + g.rng.usize(5);
        for _ in 0..n {
            g.act_push_legal();
        }
        for _ in 0..3 {
            // a different start: counters changed, a man retyped, a man removed, rights / mark dropped
            let mut r = start.sent;
            match g.rng.usize(6) {
                0 => r.move_counter = if r.move_counter > 0 { r.move_counter - 1 } else { 1 },
                1 => r.move_number = if r.move_number > 1 { r.move_number - 1 } else { 2 },
                2 | 3 => {
                    let occ: Vec<usize> = (0..64).filter(|&i| {
                        let c = r.cells[i];
                        c != Cell::EMPTY && c.piece() != Some(Piece::King) && c.piece() != Some(Piece::Pawn)
                    }).collect();
                    if !occ.is_empty() {
                        let i = *g.rng.pick(&occ);
                        let c = r.cells[i];
                        let np = *g.rng.pick(&[Piece::Knight, Piece::Bishop, Piece::Rook, Piece::Queen]);
                        r.cells[i] = Cell::from_parts(c.color().unwrap(), np);
                    }
                }
                4 => {
                    let occ: Vec<usize> = (0..64).filter(|&i| {
                        let c = r.cells[i];
                        c != Cell::EMPTY && c.piece() != Some(Piece::King)
                    }).collect();
                    if !occ.is_empty() {
                        let i = *g.rng.pick(&occ);
                        r.cells[i] = Cell::EMPTY;
                    }
                }
                _ => {
                    r.castling = owlchess::CastlingRights::EMPTY;
                    r.ep_source = None;
                }
            }
            let _ = Coord::from_index(0);
            g.step(format!("alt {}", codec::raw_fmt(&r)));
            g.step("eq".to_string());
        }
        // same start, same moves, stored outcomes that differ: unfinished vs finished, and two DIFFERENT finished ones
        if !g.sim.cur.is_finished() {
            g.step("clone".to_string());
            let a = random_outcome_token(g.rng);
            let mut b = random_outcome_token(g.rng);
            let mut guard = 0;
            while b == a && guard < 20 {
                b = random_outcome_token(g.rng);
                guard += 1;
            }
            g.step(format!("so {}", a));
            g.step("eq".to_string());
            g.step("swap".to_string());
            g.step(format!("so {}", b));
            g.step("eq".to_string());
            g.step("swap".to_string());
            g.step("eq".to_string());
        }
    }
    g.emit("st".to_string());
    let final_len = g.sim.cur.len();
    let steps = g.steps;
    let obs = g.obs;
    let line = format!("chain {} ; {}", start.raw_text(), steps.join(" ; "));
    Script { line, steps, final_len, obs }
}
