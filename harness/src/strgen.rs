//! String generator family F5

use crate::rng::Rng;
use std::collections::BTreeSet;

pub const MULTIBYTE: [&str; 4] = ["\u{e9}", "\u{20ac}", "\u{2658}", "\u{1F600}"];

/// 40 ASCII symbols: the grammars' own symbols plus a few look-alikes
pub const ALPHA40: &str = "abcdefgh12345678NBRQKOPx:=+#-0/ wkq.nrp9";
/// 16 symbols for the exhaustive length-3 sweep
pub const ALPHA16: &str = "aeh148NKQx+#=O-0";

/// Strings the protocol author asked for explicitly (known panics among them)
pub fn required() -> Vec<String> {
    [
        "a\u{e9}4",
        "N",
        "R+",
        "Nx",
        "\u{20ac}",
        "K",
        "Q#",
        "Bx",
        "N\u{20ac}",
        "\u{e9}",
        "",
        " ",
        "0000",
        "00000",
        "e2e4",
        "e7e8q",
        "e7e8k",
        "O-O",
        "O-O-O",
        "0-0",
        "0-0-0",
        "O-O+",
        "O-O-O#",
        "o-o",
        "e4",
        "exd5",
        "ed",
        "e8=Q",
        "e8Q",
        "exd8=N",
        "exd8N",
        "e:d5",
        "Nf3",
        "Nbd2",
        "N1d2",
        "Nb1d2",
        "Nxe5",
        "N:e5",
        "Nb1xd2",
        "Nf3+",
        "Nf3++",
        "Nf3#",
        "Nf3x",
        "Nf3+x",
        "e4x",
        "x",
        "+",
        "++",
        "#",
        "=",
        "=Q",
        "Q",
        "e=Q",
        "Pe4",
        "Ke",
        "Ke9",
        "Ki1",
        "Nf33",
        "Nff3",
        "Nxxf3",
        "N3f3",
        "Nf3f3f3",
        "abcdefgh",
        "a1b2c3",
        "e1g1",
        "e8c8",
        "a1a1",
        "i1a1",
        "a9a1",
        "a1i1",
        "a1a9",
        "a1a2x",
        "a7a8=Q",
        "w",
        "b",
        "W",
        "-",
        "KQkq",
        "KQkqK",
        "kqKQ",
        "KK",
        "Kx",
        "a8",
        "h1",
        "A1",
        ".",
        "P",
        "p",
        "\u{2658}f3",
        "\u{2658}",
        "e4\u{1F600}",
        "\u{1F600}",
        "\u{e9}\u{e9}",
        "\u{e9}\u{e9}\u{e9}",
        "a\u{e9}",
        "\u{e9}a",
        "N\u{e9}",
        "N\u{e9}3",
        "ab\u{e9}",
        "e2\u{e9}4",
        "e2e\u{e9}",
        "e2e4\u{e9}",
        "\u{20ac}2e4",
        "e\u{20ac}e4",
        "e2\u{20ac}4",
        "Ne\u{20ac}",
        "N\u{20ac}e",
        "\u{20ac}+",
        "\u{20ac}#",
        "\u{20ac}Q",
        "\u{20ac}=Q",
        "a\u{20ac}Q",
        "\t",
        "e2e4 ",
        " e2e4",
        "e2 e4",
        "\u{0}",
        "e2e4\u{0}",
        "\u{7f}",
    ]
    .iter()
    .map(|s| s.to_string())
    .collect()
}

pub fn uci_grammar_all() -> Vec<String> {
    let mut v = Vec::with_capacity(20481);
    v.push("0000".to_string());
    for s in 0..64u8 {
        for d in 0..64u8 {
            let base = format!("{}{}", sq_name(s), sq_name(d));
            v.push(base.clone());
            for p in ["n", "b", "r", "q"] {
                v.push(format!("{}{}", base, p));
            }
        }
    }
    v
}

pub fn sq_name(s: u8) -> String {
    let f = (b'a' + s % 8) as char;
    let r = (b'8' - s / 8) as char;
    format!("{}{}", f, r)
}

/// All strings of length ≤ 2 over ALPHA40 and of length ≤ 3 over ALPHA16
pub fn exhaustive_short() -> Vec<String> {
    let mut set: BTreeSet<String> = BTreeSet::new();
    set.insert(String::new());
    let a40: Vec<char> = ALPHA40.chars().collect();
    let a16: Vec<char> = ALPHA16.chars().collect();
    for &a in &a40 {
        set.insert(a.to_string());
        for &b in &a40 {
            set.insert(format!("{}{}", a, b));
        }
    }
    for &a in &a16 {
        for &b in &a16 {
            for &c in &a16 {
                set.insert(format!("{}{}{}", a, b, c));
            }
        }
    }
    set.into_iter().collect()
}

/// Every string of 1–2 characters over ALPHA40 (for the base-type parsers)
pub fn short_1_2() -> Vec<String> {
    let a40: Vec<char> = ALPHA40.chars().collect();
    let mut v = Vec::new();
    for &a in &a40 {
        v.push(a.to_string());
    }
    for &a in &a40 {
        for &b in &a40 {
            v.push(format!("{}{}", a, b));
        }
    }
    v
}

fn mutation_char(rng: &mut Rng) -> String {
    if rng.chance(1, 6) {
        rng.pick(&MULTIBYTE).to_string()
    } else {
        let pool: Vec<char> = "abcdefgh12345678NBRQKOPnbrqkpwx:=+#-0/ .9iI@\t~".chars().collect();
        rng.pick(&pool).to_string()
    }
}

/// One edit (delete / insert / replace one character). Works on characters so that the
/// result stays valid UTF-8, which is all a Rust `&str` can carry.
pub fn mutate(rng: &mut Rng, s: &str) -> String {
    let chars: Vec<char> = s.chars().collect();
    let n = chars.len();
    let mut out = String::new();
    match if n == 0 { 1 } else { rng.usize(3) } {
        0 => {
            let i = rng.usize(n);
            for (j, c) in chars.iter().enumerate() {
                if j != i {
                    out.push(*c);
                }
            }
        }
        1 => {
            let i = rng.usize(n + 1);
            for (j, c) in chars.iter().enumerate() {
                if j == i {
                    out.push_str(&mutation_char(rng));
                }
                out.push(*c);
            }
            if i == n {
                out.push_str(&mutation_char(rng));
            }
        }
        _ => {
            let i = rng.usize(n);
            for (j, c) in chars.iter().enumerate() {
                if j == i {
                    out.push_str(&mutation_char(rng));
                } else {
                    out.push(*c);
                }
            }
        }
    }
    out
}

/// Multi-byte characters inserted at, and substituted at, every offset
pub fn splice_all(s: &str) -> Vec<String> {
    let chars: Vec<char> = s.chars().collect();
    let mut v = Vec::new();
    for mb in MULTIBYTE {
        for i in 0..=chars.len() {
            let mut t = String::new();
            for (j, c) in chars.iter().enumerate() {
                if j == i {
                    t.push_str(mb);
                }
                t.push(*c);
            }
            if i == chars.len() {
                t.push_str(mb);
            }
            v.push(t);
        }
        for i in 0..chars.len() {
            let mut t = String::new();
            for (j, c) in chars.iter().enumerate() {
                if j == i {
                    t.push_str(mb);
                } else {
                    t.push(*c);
                }
            }
            v.push(t);
        }
    }
    v
}

pub const SHORT_VALID: [&str; 24] = [
    "e2e4", "e7e8q", "0000", "Nf3", "exd5", "ed", "e8=Q", "O-O", "O-O-O", "Nbd2", "N1xd2", "Qh4#",
    "e4+", "a1", "h8", "w", "b", "KQkq", "-", "K", "P", ".", "Kq", "e1g1",
];

pub fn long_strings() -> Vec<String> {
    let mut v = Vec::new();
    v.push("e".repeat(10_000));
    v.push("N".repeat(10_000));
    v.push(format!("N{}", "x".repeat(9_999)));
    v.push(format!("{}e4", "a".repeat(9_998)));
    v.push("8/".repeat(5_000));
    v.push(" ".repeat(10_000));
    v.push(format!("{}+", "+".repeat(9_999)));
    v.push("e2e4 ".repeat(2_000));
    v.push("\u{e9}".repeat(5_000));
    v.push(format!(
        "rnbqkbnr/pppppppp/8/8/8/8/PPPPPPPP/RNBQKBNR w KQkq - 0 1{}",
        " 1".repeat(4_000)
    ));
    v.push(format!("{} w - - 0 1", "1".repeat(9_000)));
    v
}

pub fn fen_specials() -> Vec<String> {
    let ini = "rnbqkbnr/pppppppp/8/8/8/8/PPPPPPPP/RNBQKBNR";
    let mut v: Vec<String> = vec![
        "".into(),
        " ".into(),
        format!("{}", ini),
        format!("{} ", ini),
        format!("{} w", ini),
        format!("{} w ", ini),
        format!("{} w KQkq", ini),
        format!("{} w KQkq ", ini),
        format!("{} w KQkq -", ini),
        format!("{} w KQkq - ", ini),
        format!("{} w KQkq - 0", ini),
        format!("{} w KQkq - 0 ", ini),
        format!("{} w KQkq - 0 1", ini),
        format!("{} w KQkq - 0 1 ", ini),
        format!("{} w KQkq - 0 1 x", ini),
        format!(" {} w KQkq - 0 1", ini),
        format!("{}  w KQkq - 0 1", ini),
        format!("{} w  KQkq - 0 1", ini),
        format!("{} w KQkq  - 0 1", ini),
        format!("{} w KQkq -  0 1", ini),
        format!("{} w KQkq - 0  1", ini),
        format!("{}\tw KQkq - 0 1", ini),
        format!("{} w KQkq - +0 1", ini),
        format!("{} w KQkq - 0 +1", ini),
        format!("{} w KQkq - +0 +1", ini),
        format!("{} w KQkq - -0 1", ini),
        format!("{} w KQkq - 0 -1", ini),
        format!("{} w KQkq - 65535 65535", ini),
        format!("{} w KQkq - 65536 1", ini),
        format!("{} w KQkq - 0 65536", ini),
        format!("{} w KQkq - 00000 00001", ini),
        format!("{} w KQkq - 99999999999999999999 1", ini),
        format!("{} w KQkq - 1e3 1", ini),
        format!("{} w KQkq - 0x10 1", ini),
        format!("{} w KQkq - 0 1.0", ini),
        format!("{} w KQkq -- 0 1", ini),
        format!("{} w KQkq e3 0 1", ini),
        format!("{} w KQkq e6 0 1", ini),
        format!("{} b KQkq e3 0 1", ini),
        format!("{} b KQkq e6 0 1", ini),
        format!("{} w KQkq e9 0 1", ini),
        format!("{} w KQkq i6 0 1", ini),
        format!("{} w KQkq e 0 1", ini),
        format!("{} w KQkq e66 0 1", ini),
        format!("{} w KQkq E6 0 1", ini),
        format!("{} W KQkq - 0 1", ini),
        format!("{} wb KQkq - 0 1", ini),
        format!("{} x KQkq - 0 1", ini),
        format!("{} w KQkqK - 0 1", ini),
        format!("{} w KK - 0 1", ini),
        format!("{} w kqKQ - 0 1", ini),
        format!("{} w qkQK - 0 1", ini),
        format!("{} w KQkx - 0 1", ini),
        format!("{} w -- - 0 1", ini),
        format!("{} w K- - 0 1", ini),
        format!("{} w AHah - 0 1", ini),
        "......../......../......../......../......../......../......../........ w - - 0 1".into(),
        "rnbqkbnr/pppppppp/......../8/8/8/PPPPPPPP/RNBQKBNR w KQkq - 0 1".into(),
        "rnbqkbnr/pppppppp/4..2/8/8/8/PPPPPPPP/RNBQKBNR w KQkq - 0 1".into(),
        "rnbqkbnr/pppppppp/44/8/8/8/PPPPPPPP/RNBQKBNR w KQkq - 0 1".into(),
        "rnbqkbnr/pppppppp/9/8/8/8/PPPPPPPP/RNBQKBNR w KQkq - 0 1".into(),
        "rnbqkbnr/pppppppp/0/8/8/8/PPPPPPPP/RNBQKBNR w KQkq - 0 1".into(),
        "rnbqkbnr/pppppppp/08/8/8/8/PPPPPPPP/RNBQKBNR w KQkq - 0 1".into(),
        "rnbqkbnr/pppppppp/7/8/8/8/PPPPPPPP/RNBQKBNR w KQkq - 0 1".into(),
        "rnbqkbnr/pppppppp/81/8/8/8/PPPPPPPP/RNBQKBNR w KQkq - 0 1".into(),
        "rnbqkbnrr/pppppppp/8/8/8/8/PPPPPPPP/RNBQKBNR w KQkq - 0 1".into(),
        "rnbqkbnr/pppppppp/8/8/8/8/PPPPPPPP w KQkq - 0 1".into(),
        "rnbqkbnr/pppppppp/8/8/8/8/PPPPPPPP/RNBQKBNR/8 w KQkq - 0 1".into(),
        "rnbqkbnr/pppppppp/8/8/8/8/PPPPPPPP/RNBQKBNR/ w KQkq - 0 1".into(),
        "/rnbqkbnr/pppppppp/8/8/8/8/PPPPPPPP/RNBQKBNR w KQkq - 0 1".into(),
        "rnbqkbnr//pppppppp/8/8/8/8/PPPPPPPP/RNBQKBNR w KQkq - 0 1".into(),
        "rnbqkbnr/pppppppp/8/8/8/8/PPPPPPPP/RNBQKBNX w KQkq - 0 1".into(),
        "rnbqkbnr/pppppppp/8/8/8/8/PPPPPPPP/RNBQKBN\u{e9} w KQkq - 0 1".into(),
        "rnbqkbnr/pppppppp/8/8/8/8/PPPPPPPP/RNBQKBNR w KQkq - 0 1\u{e9}".into(),
        "8/8/8/8/8/8/8/8 w - - 0 1".into(),
        "8/8/8/8/8/8/8/8".into(),
        "k7/8/8/8/8/8/8/K7 w - - 0 1".into(),
        "k7/8/8/8/8/8/8/K7 b - - 65535 65535".into(),
        "kK6/8/8/8/8/8/8/8 w - - 0 1".into(),
        "k7/8/8/8/8/8/8/KK6 w - - 0 1".into(),
        "k7/8/8/8/8/8/8/7P w - - 0 1".into(),
        "P6k/8/8/8/8/8/8/K7 w - - 0 1".into(),
        "QQQQQQQQ/QQQQQQQQ/Q7/8/8/8/7k/K7 w - - 0 1".into(),
        "k7/8/8/3pP3/8/8/8/K7 w - d6 0 1".into(),
        "k7/8/8/3pP3/8/8/8/K7 w - e6 0 1".into(),
        "k7/8/3n4/3pP3/8/8/8/K7 w - d6 0 1".into(),
        "k7/8/8/8/3pP3/8/8/K7 b - e3 0 1".into(),
        "r3k2r/8/8/8/8/8/8/R3K2R w KQkq - 0 1".into(),
        "r3k2r/8/8/8/8/8/8/R3K2R w - - 0 1".into(),
        "4k3/8/8/8/8/8/8/4K3 w KQkq - 0 1".into(),
        "8/8/8/K2Pp2r/8/8/8/7k w - e6 0 1".into(),
        "4k3/8/8/8/8/8/8/4K3 w - - 65535 65535".into(),
    ];
    v.dedup();
    v
}

/// Notational variants of a SAN string that the parser documents as accepted (or nearly so)
pub fn san_variants(s: &str) -> Vec<String> {
    let mut v: Vec<String> = Vec::new();
    let core = s.trim_end_matches(|c| c == '+' || c == '#');
    if s.contains("O-O") {
        v.push(s.replace('O', "0"));
        v.push(s.replace('O', "o"));
    }
    if s.contains('x') {
        v.push(s.replace('x', ":"));
        v.push(s.replace('x', ""));
    } else if core.len() >= 2 && !s.contains('-') {
        // add a capture sign to a non-capture
        let (a, b) = core.split_at(core.len() - 2);
        if !b.contains('=') && b.as_bytes()[1].is_ascii_digit() {
            v.push(format!("{}x{}", a, b));
        }
    }
    if s.contains('=') {
        v.push(s.replace('=', ""));
    }
    v.push(format!("{}+", core));
    v.push(format!("{}++", core));
    v.push(format!("{}#", core));
    v.push(format!("{}x", core));
    v.push(core.to_string());
    v.retain(|x| x != s);
    v.sort();
    v.dedup();
    v
}

pub fn random_uci(rng: &mut Rng) -> String {
    if rng.chance(1, 30) {
        return "0000".to_string();
    }
    let s = rng.usize(64) as u8;
    let d = rng.usize(64) as u8;
    let p = ["", "", "", "n", "b", "r", "q"][rng.usize(7)];
    format!("{}{}{}", sq_name(s), sq_name(d), p)
}

pub fn random_junk(rng: &mut Rng) -> String {
    let n = match rng.weighted(&[10, 30, 30, 20, 10]) {
        0 => 0,
        1 => 1 + rng.usize(2),
        2 => 3 + rng.usize(3),
        3 => 6 + rng.usize(5),
        _ => 11 + rng.usize(30),
    };
    let mut s = String::new();
    for _ in 0..n {
        s.push_str(&mutation_char(rng));
    }
    s
}

/// Random SAN-shaped string (not necessarily meaningful in any position)
pub fn random_sanlike(rng: &mut Rng) -> String {
    let dst = sq_name(rng.usize(64) as u8);
    let mut s = String::new();
    match rng.usize(6) {
        0 => s.push_str(&dst),
        1 => {
            s.push((b'a' + rng.usize(8) as u8) as char);
            s.push(if rng.chance(1, 4) { ':' } else { 'x' });
            s.push_str(&dst);
        }
        2 => {
            s.push((b'a' + rng.usize(8) as u8) as char);
            s.push((b'a' + rng.usize(8) as u8) as char);
        }
        3 => {
            s.push_str(if rng.chance(1, 2) { "O-O" } else { "O-O-O" });
        }
        _ => {
            s.push(*rng.pick(&['N', 'B', 'R', 'Q', 'K']));
            if rng.chance(1, 4) {
                s.push((b'a' + rng.usize(8) as u8) as char);
            }
            if rng.chance(1, 5) {
                s.push((b'1' + rng.usize(8) as u8) as char);
            }
            if rng.chance(1, 3) {
                s.push(if rng.chance(1, 4) { ':' } else { 'x' });
            }
            s.push_str(&dst);
        }
    }
    if rng.chance(1, 8) {
        s.push_str(if rng.chance(1, 2) { "=Q" } else { "N" });
    }
    match rng.usize(10) {
        0 => s.push('+'),
        1 => s.push('#'),
        2 => s.push_str("++"),
        _ => {}
    }
    s
}

/// The pool of F5 strings used by the totality property: exhaustive short strings, the
/// required ones, spliced multi-byte, long strings, FEN specials, plus `n_mut` mutants of
/// the given valid strings.
pub fn f5_pool(rng: &mut Rng, valid: &[String], n_mut: usize) -> Vec<String> {
    let mut set: BTreeSet<String> = BTreeSet::new();
    for s in exhaustive_short() {
        set.insert(s);
    }
    for s in required() {
        set.insert(s);
    }
    for s in SHORT_VALID {
        set.insert(s.to_string());
        for t in splice_all(s) {
            set.insert(t);
        }
    }
    for s in long_strings() {
        set.insert(s);
    }
    for s in fen_specials() {
        set.insert(s);
    }
    for s in valid {
        set.insert(s.clone());
    }
    if !valid.is_empty() {
        for _ in 0..n_mut {
            let base = rng.pick(valid).clone();
            let mut m = mutate(rng, &base);
            if rng.chance(1, 6) {
                m = mutate(rng, &m);
            }
            set.insert(m);
        }
    }
    for _ in 0..(n_mut / 4) {
        set.insert(random_junk(rng));
        set.insert(random_sanlike(rng));
    }
    // BTreeSet order is deterministic; shuffle for a less monotone file
    let mut v: Vec<String> = set.into_iter().collect();
    rng.shuffle(&mut v);
    v
}

/// FEN records whose en-passant field names every square of the board in turn (both sides to move, with and without a
/// pawn where the mark would need one) — the reader must refuse the wrong ranks, never trap on them
pub fn fen_ep_sweep() -> Vec<String> {
    let mut v = Vec::new();
    let boards = [
        "rnbqkbnr/pppppppp/8/8/8/8/PPPPPPPP/RNBQKBNR",
        "4k3/8/8/pppppppp/PPPPPPPP/8/8/4K3",
        "4k3/8/8/8/8/8/8/4K3",
    ];
    for b in boards {
        for side in ["w", "b"] {
            for sq in 0..64u8 {
                v.push(format!("{} {} - {} 0 1", b, side, sq_name(sq)));
            }
        }
    }
    v
}

/// crowded placement fields: men and single empty squares in strict alternation (the longest placement text a board can
/// have is 71 bytes: eight ranks of eight characters and seven separators), and neighbours of that extreme
pub fn crowded_placements(rng: &mut crate::rng::Rng, n: usize) -> Vec<String> {
    let men = b"PNBRQpnbrq";
    let mut v = Vec::new();
    for i in 0..n {
        let mut ranks: Vec<String> = Vec::new();
        for r in 0..8 {
            let mut t = String::new();
            let phase = rng.usize(2);
            // how many of the alternating slots are merged back into longer gaps (0 = the 8-character extreme)
            let merge = if i % 3 == 0 { 0 } else { rng.usize(3) };
            let mut f = 0;
            while f < 8 {
                if (f + phase) % 2 == 0 {
                    let c = men[rng.usize(men.len())] as char;
                    let c = if (r == 0 || r == 7) && (c == 'P' || c == 'p') { 'N' } else { c };
                    t.push(c);
                    f += 1;
                } else if merge > 0 && f + 2 < 8 && rng.chance(1, 3) {
                    t.push('3');
                    f += 3;
                } else {
                    t.push('1');
                    f += 1;
                }
            }
            ranks.push(t);
        }
        // kings somewhere
        let mut s = ranks.join("/");
        if let Some(p) = s.find(|c: char| c.is_ascii_uppercase()) {
            s.replace_range(p..p + 1, "K");
        }
        if let Some(p) = s.rfind(|c: char| c.is_ascii_lowercase()) {
            s.replace_range(p..p + 1, "k");
        }
        v.push(format!("{} {} - - {} {}", s, if rng.chance(1, 2) { "w" } else { "b" }, rng.usize(100), 1 + rng.usize(200)));
    }
    v
}
