//! Interpreter of `chain` scripts (shared by `run` and by the script generator)

use crate::codec::*;
use owlchess::chain::{GameStatusPolicy, MoveChain, NumberPolicy};
use owlchess::moves::make;
use owlchess::moves::{san, uci, Style};
use owlchess::types::OutcomeFilter;
use owlchess::Board;
use std::panic::{catch_unwind, AssertUnwindSafe};
use std::str::FromStr;

pub struct ChainSim {
    pub cur: MoveChain,
    pub other: Option<MoveChain>,
}

pub fn st_fmt(c: &MoveChain) -> String {
    let moves: Vec<String> = c.iter().map(|m| mv_fmt(&m)).collect();
    format!(
        "len={} out={} last={} start={} moves={}",
        c.len(),
        out_fmt(c.outcome()),
        underscored(&full_fmt(c.last())),
        underscored(&raw_fmt(c.startpos())),
        if moves.is_empty() {
            "-".to_string()
        } else {
            moves.join(",")
        }
    )
}

fn mutating(kind: &str) -> bool {
    matches!(
        kind,
        "pm" | "pn" | "pU" | "pu" | "pS" | "ps" | "pl" | "pop" | "so" | "co" | "ro" | "auto" | "clone" | "swap" | "alt"
    )
}

impl ChainSim {
    pub fn new(b: Board) -> ChainSim {
        ChainSim {
            cur: MoveChain::new(b),
            other: None,
        }
    }

    /// Executes one step and returns its observation. A panic inside the library is
    /// reported as `panic` and both slots are restored to their state before the step.
    pub fn step(&mut self, step: &str) -> String {
        let kind = step.split(' ').next().unwrap_or("");
        let snapshot = if mutating(kind) {
            Some((self.cur.clone(), self.other.clone()))
        } else {
            None
        };
        crate::set_sub(step);
        match catch_unwind(AssertUnwindSafe(|| self.step_inner(step))) {
            Ok(s) => s,
            Err(_) => {
                if let Some((c, o)) = snapshot {
                    self.cur = c;
                    self.other = o;
                }
                "panic".to_string()
            }
        }
    }

    fn step_inner(&mut self, step: &str) -> String {
        let t: Vec<&str> = step.split(' ').collect();
        const BAD: &str = "badstep";
        match (t[0], t.len()) {
            ("pm", 2) => {
                if self.cur.is_finished() {
                    return "skip".to_string();
                }
                let m4 = match mv4_parse(t[1]) {
                    Some(x) => x,
                    None => return BAD.to_string(),
                };
                let m = match mv4_new(m4) {
                    Ok(m) => m,
                    Err(_) => return "notwf".to_string(),
                };
                match self.cur.push(m) {
                    Ok(()) => "ok".to_string(),
                    Err(e) => format!("err:{}", e_mv_validate(&e)),
                }
            }
            ("pn", 1) => {
                // the null move, recorded with `push_unchecked` within its contract (game not finished, not in check)
                if self.cur.is_finished() || self.cur.last().is_check() {
                    return "skip".to_string();
                }
                unsafe { self.cur.push_unchecked(owlchess::moves::Move::NULL) };
                "ok".to_string()
            }
            ("pU", 2) | ("pu", 2) | ("pS", 2) | ("ps", 2) | ("pl", 2) => {
                if self.cur.is_finished() {
                    return "skip".to_string();
                }
                let s = match str_dec(t[1]) {
                    Some(x) => x,
                    None => return BAD.to_string(),
                };
                match t[0] {
                    "pU" => {
                        let m = match uci::Move::from_str(&s) {
                            Ok(m) => m,
                            Err(_) => return "parse-err".to_string(),
                        };
                        match self.cur.push(m) {
                            Ok(()) => "ok".to_string(),
                            Err(e) => format!("err:{}", e_uci(&e)),
                        }
                    }
                    "pu" => match self.cur.push(make::Uci(&s)) {
                        Ok(()) => "ok".to_string(),
                        Err(e) => format!("err:{}", e_uci(&e)),
                    },
                    "pS" => {
                        let m = match san::Move::from_str(&s) {
                            Ok(m) => m,
                            Err(_) => return "parse-err".to_string(),
                        };
                        match self.cur.push(m) {
                            Ok(()) => "ok".to_string(),
                            Err(e) => format!("err:{}", e_san_into(&e)),
                        }
                    }
                    "ps" => match self.cur.push(make::San(&s)) {
                        Ok(()) => "ok".to_string(),
                        Err(e) => format!("err:{}", e_san(&e)),
                    },
                    _ => match self.cur.push_uci_list(&s) {
                        Ok(()) => "ok".to_string(),
                        Err(e) => format!("err@{}:{}", e.pos, e_uci(&e.source)),
                    },
                }
            }
            ("pop", 1) => match self.cur.pop() {
                Some(m) => mv_fmt(&m),
                None => "none".to_string(),
            },
            ("so", 2) => {
                if self.cur.is_finished() {
                    return "skip".to_string();
                }
                match out_parse(t[1]) {
                    Some(Some(o)) => {
                        self.cur.set_outcome(o);
                        "ok".to_string()
                    }
                    _ => BAD.to_string(),
                }
            }
            ("co", 1) => {
                self.cur.clear_outcome();
                "ok".to_string()
            }
            ("ro", 2) => match out_parse(t[1]) {
                Some(o) => {
                    self.cur.reset_outcome(o);
                    "ok".to_string()
                }
                None => BAD.to_string(),
            },
            ("calc", 1) => out_fmt(&self.cur.calc_outcome()),
            ("auto", 2) => {
                if self.cur.is_finished() {
                    return "skip".to_string();
                }
                let f = match t[1] {
                    "f" => OutcomeFilter::Force,
                    "s" => OutcomeFilter::Strict,
                    "r" => OutcomeFilter::Relaxed,
                    _ => return BAD.to_string(),
                };
                out_fmt(&self.cur.set_auto_outcome(f))
            }
            ("st", 1) => st_fmt(&self.cur),
            ("uci", 1) => str_enc(&self.cur.uci().to_string()),
            ("rebuild", 1) => {
                let text = self.cur.uci().to_string();
                let start = match Board::try_from(*self.cur.startpos()) {
                    Ok(b) => b,
                    Err(e) => return format!("err:start:{}", e_board_validate(&e)),
                };
                match MoveChain::from_uci_list(start, &text) {
                    Ok(c2) => {
                        let mut c1 = self.cur.clone();
                        c1.clear_outcome();
                        format!("eq={}", if c1 == c2 { 1 } else { 0 })
                    }
                    Err(e) => format!("err@{}:{}", e.pos, e_uci(&e.source)),
                }
            }
            ("sty", 4) => {
                let n = match t[1] {
                    "o" => NumberPolicy::Omit,
                    "b" => NumberPolicy::FromBoard,
                    x => match x.strip_prefix('c').and_then(|y| y.parse::<usize>().ok()) {
                        Some(v) => NumberPolicy::Custom(v),
                        None => return BAD.to_string(),
                    },
                };
                let s = match t[2] {
                    "s" => Style::San,
                    "u" => Style::SanUtf8,
                    "U" => Style::Uci,
                    _ => return BAD.to_string(),
                };
                let g = match t[3] {
                    "s" => GameStatusPolicy::Show,
                    "h" => GameStatusPolicy::Hide,
                    _ => return BAD.to_string(),
                };
                str_enc(&self.cur.styled(n, s, g).to_string())
            }
            ("w", 2) => {
                let before = st_fmt(&self.cur);
                let mut obs: Vec<String> = Vec::new();
                {
                    let mut w = self.cur.walk();
                    for ch in t[1].chars() {
                        match ch {
                            'n' => obs.push(match w.next() {
                                Some((b, m)) => {
                                    format!("{}/{}", underscored(&full_fmt(b)), mv_fmt(&m))
                                }
                                None => "none".to_string(),
                            }),
                            'p' => obs.push(match w.prev() {
                                Some((b, m)) => {
                                    format!("{}/{}", underscored(&full_fmt(b)), mv_fmt(&m))
                                }
                                None => "none".to_string(),
                            }),
                            's' => {
                                w.start();
                                obs.push(".".to_string());
                            }
                            'e' => {
                                w.end();
                                obs.push(".".to_string());
                            }
                            _ => return BAD.to_string(),
                        }
                    }
                }
                let after = st_fmt(&self.cur);
                format!(
                    "{} unch={}",
                    if obs.is_empty() {
                        "-".to_string()
                    } else {
                        obs.join(",")
                    },
                    if before == after { 1 } else { 0 }
                )
            }
            ("clone", 1) => {
                self.other = Some(self.cur.clone());
                "ok".to_string()
            }
            ("alt", 7) => {
                // `other` := a fresh chain from another start position with the current UCI list replayed
                let raw = match raw_parse(&t[1..7]) {
                    Some(r) => r,
                    None => return BAD.to_string(),
                };
                let start = match Board::try_from(raw) {
                    Ok(b) => b,
                    Err(_) => return "invalid".to_string(),
                };
                let text = self.cur.uci().to_string();
                match MoveChain::from_uci_list(start, &text) {
                    Ok(c2) => {
                        self.other = Some(c2);
                        "ok".to_string()
                    }
                    Err(e) => format!("err@{}", e.pos),
                }
            }
            ("swap", 1) => match self.other.take() {
                Some(o) => {
                    let c = std::mem::replace(&mut self.cur, o);
                    self.other = Some(c);
                    "ok".to_string()
                }
                None => "n/a".to_string(),
            },
            ("eq", 1) => match &self.other {
                Some(o) => (if self.cur == *o { "==" } else { "!=" }).to_string(),
                None => "n/a".to_string(),
            },
            _ => BAD.to_string(),
        }
    }
}

/// `chain RAW ; step ; step …`
pub fn run_chain(line: &str) -> String {
    let rest = match line.strip_prefix("chain ") {
        Some(r) => r,
        None => return "badarg".to_string(),
    };
    let mut parts = rest.split(" ; ");
    let head = parts.next().unwrap_or("");
    let ht: Vec<&str> = head.split(' ').collect();
    let raw = match raw_parse(&ht) {
        Some(r) => r,
        None => return "badarg".to_string(),
    };
    let b = match Board::try_from(raw) {
        Ok(b) => b,
        Err(_) => return "invalid".to_string(),
    };
    let mut sim = ChainSim::new(b);
    let mut obs: Vec<String> = Vec::new();
    for s in parts {
        obs.push(sim.step(s));
    }
    if obs.is_empty() {
        "-".to_string()
    } else {
        obs.join(";")
    }
}
