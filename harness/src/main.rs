mod chaingen;
mod chainops;
mod codec;
mod ops;
mod posgen;
mod props;
mod rng;
mod stats;
mod strgen;

use std::fs::File;
use std::io::{BufRead, BufReader, BufWriter, Write};
use std::time::Instant;

fn usage() -> ! {
    eprintln!(
        "usage:\n  owl-harness run <cases.txt> <impl.txt>\n  owl-harness gen --prop <C01..C20> --tier <quick|thorough> --seed <u64> --out <cases.txt> --stats <stats.json> [--scale <f64>]\n  owl-harness fen <FEN>\n  owl-harness raw2fen <6 RAW tokens>\n  owl-harness selftest [--keep <dir>]"
    );
    std::process::exit(2);
}

thread_local! {
    /// the case line (run mode) or generator input (gen mode) the current thread is working on
    pub static CURRENT: std::cell::RefCell<String> = std::cell::RefCell::new(String::new());
}

thread_local! {
    /// finer breadcrumb: the step of a chain script being executed
    pub static SUB: std::cell::RefCell<String> = std::cell::RefCell::new(String::new());
}

pub fn set_sub(s: &str) {
    SUB.with(|c| {
        let mut c = c.borrow_mut();
        c.clear();
        c.push_str(s);
    });
}

pub fn set_current(s: &str) {
    set_sub("");
    CURRENT.with(|c| {
        let mut c = c.borrow_mut();
        c.clear();
        c.push_str(s);
    });
}

/// Ordinary panics are caught per case and reported as `panic`. A panic that cannot unwind (a violated `unsafe`
/// precondition check, a panic in a `nounwind` context) aborts the whole process; so that the aborting input can
/// be named, every panic overwrites the file `$OWL_PANIC_FILE` (if set) with the current case and the message.
pub fn install_silent_hook() {
    let path = std::env::var("OWL_PANIC_FILE").ok();
    std::panic::set_hook(Box::new(move |info| {
        if let Some(p) = &path {
            let cur = CURRENT.with(|c| c.borrow().clone());
            let sub = SUB.with(|c| c.borrow().clone());
            let cur = if sub.is_empty() { cur } else { format!("{} ## step: {}", cur, sub) };
            let msg = format!("{}", info);
            // a backtrace only for the kinds of panic that abort the process (they are rare)
            let bt = if msg.contains("unsafe precondition") || msg.contains("cannot unwind") {
                format!("{}", std::backtrace::Backtrace::force_capture())
            } else {
                String::new()
            };
            let _ = std::fs::write(p, format!("{}\n{}\n{}\n", cur, msg, bt));
        }
    }));
}

pub fn run_cases(lines: &[String]) -> Vec<String> {
    let n = lines.len();
    let threads = std::thread::available_parallelism()
        .map(|x| x.get())
        .unwrap_or(4)
        .max(1);
    // Many small chunks handed out through an atomic counter: expensive ops (semibulk,
    // long chains) then do not pile up in one worker.
    let chunk = ((n + threads * 16 - 1) / (threads * 16)).clamp(1, 4096);
    let nchunks = (n + chunk - 1) / chunk;
    let next = std::sync::atomic::AtomicUsize::new(0);
    let mut results: Vec<Vec<String>> = Vec::new();
    results.resize_with(nchunks, Vec::new);
    let slots: Vec<std::sync::Mutex<Vec<String>>> =
        results.into_iter().map(std::sync::Mutex::new).collect();
    std::thread::scope(|sc| {
        for _ in 0..threads.min(nchunks.max(1)) {
            sc.spawn(|| loop {
                let i = next.fetch_add(1, std::sync::atomic::Ordering::Relaxed);
                if i >= nchunks {
                    break;
                }
                let lo = i * chunk;
                let hi = ((i + 1) * chunk).min(n);
                let mut out = Vec::with_capacity(hi - lo);
                for l in &lines[lo..hi] {
                    set_current(l);
                    out.push(ops::run_line(l));
                }
                *slots[i].lock().unwrap() = out;
            });
        }
    });
    let mut all = Vec::with_capacity(n);
    for s in slots {
        all.extend(s.into_inner().unwrap());
    }
    all
}

fn cmd_run(cases: &str, out: &str) -> std::io::Result<()> {
    install_silent_hook();
    let f = BufReader::with_capacity(1 << 20, File::open(cases)?);
    let mut w = BufWriter::with_capacity(1 << 20, File::create(out)?);
    // Processed in blocks so that memory stays bounded for very large case files.
    const BLOCK: usize = 400_000;
    let mut block: Vec<String> = Vec::with_capacity(BLOCK.min(1 << 16));
    let flush = |block: &mut Vec<String>, w: &mut BufWriter<File>| -> std::io::Result<()> {
        let res = run_cases(block);
        for r in res {
            w.write_all(r.as_bytes())?;
            w.write_all(b"\n")?;
        }
        block.clear();
        Ok(())
    };
    for line in f.lines() {
        let line = line?;
        block.push(line);
        if block.len() >= BLOCK {
            flush(&mut block, &mut w)?;
        }
    }
    flush(&mut block, &mut w)?;
    w.flush()?;
    Ok(())
}

fn arg_val(args: &[String], name: &str) -> Option<String> {
    args.iter()
        .position(|a| a == name)
        .and_then(|i| args.get(i + 1).cloned())
}

fn main() {
    let args: Vec<String> = std::env::args().collect();
    if args.len() < 2 {
        usage();
    }
    match args[1].as_str() {
        "run" => {
            if args.len() != 4 {
                usage();
            }
            if let Err(e) = cmd_run(&args[2], &args[3]) {
                eprintln!("error: {}", e);
                std::process::exit(1);
            }
        }
        "gen" => {
            let prop = arg_val(&args, "--prop").unwrap_or_else(|| usage());
            let tier = arg_val(&args, "--tier").unwrap_or_else(|| "quick".to_string());
            let seed: u64 = arg_val(&args, "--seed")
                .map(|s| s.parse().unwrap_or_else(|_| usage()))
                .unwrap_or(1);
            let out = arg_val(&args, "--out").unwrap_or_else(|| usage());
            let stats = arg_val(&args, "--stats").unwrap_or_else(|| usage());
            let scale: f64 = arg_val(&args, "--scale")
                .map(|s| s.parse().unwrap_or_else(|_| usage()))
                .unwrap_or(1.0);
            let thorough = match tier.as_str() {
                "quick" => false,
                "thorough" => true,
                _ => usage(),
            };
            install_silent_hook();
            let t0 = Instant::now();
            match props::generate(&prop, thorough, seed, scale, &out, &stats) {
                Ok(n) => eprintln!(
                    "{} {} seed={} scale={}: {} cases in {:.2}s",
                    prop,
                    tier,
                    seed,
                    scale,
                    n,
                    t0.elapsed().as_secs_f64()
                ),
                Err(e) => {
                    eprintln!("error: {}", e);
                    std::process::exit(1);
                }
            }
        }
        "fen" => {
            if args.len() < 3 {
                usage();
            }
            let fen = args[2..].join(" ");
            match codec::fen_to_raw(&fen) {
                Some(r) => println!("{}", codec::raw_fmt(&r)),
                None => {
                    eprintln!("cannot parse FEN");
                    std::process::exit(1);
                }
            }
        }
        "raw2fen" => {
            let toks: Vec<&str> = args[2..].iter().flat_map(|s| s.split(' ')).collect();
            match codec::raw_parse(&toks) {
                Some(r) => println!("{}", r),
                None => {
                    eprintln!("cannot parse RAW");
                    std::process::exit(1);
                }
            }
        }
        "debug-f3" => {
            install_silent_hook();
            let full = args.iter().any(|a| a == "--full");
            props::debug_f3(full);
        }
        "selftest" => {
            install_silent_hook();
            let keep = arg_val(&args, "--keep");
            let tier = arg_val(&args, "--tier").unwrap_or_else(|| "quick".to_string());
            let scale: f64 = arg_val(&args, "--scale")
                .map(|s| s.parse().unwrap_or_else(|_| usage()))
                .unwrap_or(1.0);
            let ok = props::selftest(keep.as_deref(), tier == "thorough", scale);
            if !ok {
                std::process::exit(1);
            }
        }
        _ => usage(),
    }
}
