//! xoshiro256** seeded through splitmix64. The one PRNG of the harness.

#[derive(Clone, Debug)]
pub struct Rng {
    s: [u64; 4],
}

fn splitmix64(state: &mut u64) -> u64 {
    *state = state.wrapping_add(0x9E37_79B9_7F4A_7C15);
    let mut z = *state;
    z = (z ^ (z >> 30)).wrapping_mul(0xBF58_476D_1CE4_E5B9);
    z = (z ^ (z >> 27)).wrapping_mul(0x94D0_49BB_1331_11EB);
    z ^ (z >> 31)
}

impl Rng {
    pub fn new(seed: u64) -> Rng {
        let mut st = seed;
        let mut s = [0u64; 4];
        for x in s.iter_mut() {
            *x = splitmix64(&mut st);
        }
        if s == [0; 4] {
            s[0] = 1;
        }
        Rng { s }
    }

    pub fn next_u64(&mut self) -> u64 {
        let result = self.s[1].wrapping_mul(5).rotate_left(7).wrapping_mul(9);
        let t = self.s[1] << 17;
        self.s[2] ^= self.s[0];
        self.s[3] ^= self.s[1];
        self.s[1] ^= self.s[2];
        self.s[0] ^= self.s[3];
        self.s[2] ^= t;
        self.s[3] = self.s[3].rotate_left(45);
        result
    }

    /// Uniform in `0..n` (n > 0), by rejection to avoid modulo bias.
    pub fn below(&mut self, n: u64) -> u64 {
        debug_assert!(n > 0);
        if n.is_power_of_two() {
            return self.next_u64() & (n - 1);
        }
        let zone = u64::MAX - (u64::MAX % n) - 1;
        loop {
            let x = self.next_u64();
            if x <= zone {
                return x % n;
            }
        }
    }

    pub fn usize(&mut self, n: usize) -> usize {
        self.below(n as u64) as usize
    }

    /// Uniform in `lo..=hi`
    pub fn range(&mut self, lo: i64, hi: i64) -> i64 {
        lo + self.below((hi - lo + 1) as u64) as i64
    }

    /// True with probability `num/den`
    pub fn chance(&mut self, num: u64, den: u64) -> bool {
        self.below(den) < num
    }

    pub fn pick<'a, T>(&mut self, xs: &'a [T]) -> &'a T {
        &xs[self.usize(xs.len())]
    }

    pub fn shuffle<T>(&mut self, xs: &mut [T]) {
        for i in (1..xs.len()).rev() {
            let j = self.usize(i + 1);
            xs.swap(i, j);
        }
    }

    /// Pick an index according to integer weights
    pub fn weighted(&mut self, ws: &[u32]) -> usize {
        let total: u64 = ws.iter().map(|&w| w as u64).sum();
        let mut x = self.below(total);
        for (i, &w) in ws.iter().enumerate() {
            if x < w as u64 {
                return i;
            }
            x -= w as u64;
        }
        ws.len() - 1
    }
}
