//! Runs one case line against the real library and returns the canonical answer.

use crate::chainops;
use crate::codec::*;
use owlchess::moves::make::{self, Make};
use owlchess::moves::{self, san, uci, Move};
use owlchess::movegen::{self, legal, semilegal, MoveList};
use owlchess::types::{CastlingRights, CastlingSide, Cell, Color, Coord, File, Piece, Rank};
use owlchess::{verif, Bitboard, Board, RawBoard};
use owlchess_base::{bitboard_consts, geometry};
use std::panic::{catch_unwind, AssertUnwindSafe};
use std::str::FromStr;

pub const BADARG: &str = "badarg";

/// Case prefixes that change WHICH board object a position case is asked of (PROTOCOL.md, "object prefixes"):
/// `restored MV <case>` — the board obtained from the validated one by making MV and taking it back (same object, its
/// incrementally maintained sets and hash as the undo left them); `reached MV <case>` — the board object that
/// `Board::make_move(MV)` returned (answer `n/a` if the move is refused or not well-formed).
#[derive(Clone, Copy)]
enum Step {
    /// make in place, then take back
    Undo(Mv4),
    /// `Board::make_move` (a new board object)
    Make(Mv4),
    /// the null move, made in place with `make_move_unchecked` (its contract: the side to move is not in check) and KEPT
    Null,
}

thread_local! {
    static PRE: std::cell::RefCell<Vec<Step>> = std::cell::RefCell::new(Vec::new());
}

fn pre_active() -> bool {
    PRE.with(|p| !p.borrow().is_empty())
}

/// `via STEPS`: comma-separated `u<MV>` / `m<MV>`
fn parse_steps(t: &str) -> Option<Vec<Step>> {
    let mut v = Vec::new();
    for part in t.split(',') {
        if part == "n" {
            v.push(Step::Null);
            continue;
        }
        let (k, mv) = part.split_at(1);
        let m = mv4_parse(mv)?;
        v.push(match k {
            "u" => Step::Undo(m),
            "m" => Step::Make(m),
            _ => return None,
        });
    }
    Some(v)
}

pub fn run_line(line: &str) -> String {
    let (pre, inner): (Vec<Step>, &str) = {
        let mut it = line.splitn(3, ' ');
        match (it.next(), it.next(), it.next()) {
            (Some("restored"), Some(mv), Some(rest)) => match mv4_parse(mv) {
                Some(m) => (vec![Step::Undo(m)], rest),
                None => return BADARG.to_string(),
            },
            (Some("reached"), Some(mv), Some(rest)) => match mv4_parse(mv) {
                Some(m) => (vec![Step::Make(m)], rest),
                None => return BADARG.to_string(),
            },
            (Some("via"), Some(steps), Some(rest)) => match parse_steps(steps) {
                Some(v) => (v, rest),
                None => return BADARG.to_string(),
            },
            _ => (Vec::new(), line),
        }
    };
    PRE.with(|p| *p.borrow_mut() = pre);
    let r = match catch_unwind(AssertUnwindSafe(|| run_inner(inner))) {
        Ok(s) => s,
        Err(_) => "panic".to_string(),
    };
    PRE.with(|p| p.borrow_mut().clear());
    r
}

fn board_of(t: &[&str]) -> Result<Board, String> {
    let raw = raw_parse(t).ok_or_else(|| BADARG.to_string())?;
    let mut b = Board::try_from(raw).map_err(|_| "invalid".to_string())?;
    let steps: Vec<Step> = PRE.with(|p| p.borrow().clone());
    for st in steps {
        match st {
            Step::Undo(m4) => {
                // any semilegal move (legal or not — the rollback of a refused move runs the same code) and the null move
                if let Ok(m) = mv4_new(m4) {
                    if m == Move::NULL || m.is_semilegal(&b) {
                        let u = unsafe { moves::make_move_unchecked(&mut b, m) };
                        unsafe { moves::unmake_move_unchecked(&mut b, m, u) };
                    }
                }
            }
            Step::Make(m4) => match mv4_new(m4) {
                Ok(m) => b = b.make_move(m).map_err(|_| "n/a".to_string())?,
                Err(_) => return Err("n/a".to_string()),
            },
            Step::Null => {
                if b.is_check() {
                    return Err("n/a".to_string());
                }
                let _ = unsafe { moves::make_move_unchecked(&mut b, Move::NULL) };
            }
        }
    }
    Ok(b)
}

macro_rules! tryb {
    ($e:expr) => {
        match $e {
            Ok(b) => b,
            Err(s) => return s,
        }
    };
}

macro_rules! tryo {
    ($e:expr) => {
        match $e {
            Some(b) => b,
            None => return BADARG.to_string(),
        }
    };
}

pub fn gen_list(b: &Board, which: u8, legal_: bool) -> Option<MoveList> {
    Some(match (legal_, which) {
        (false, 0) => semilegal::gen_all(b),
        (false, 1) => semilegal::gen_capture(b),
        (false, 2) => semilegal::gen_simple(b),
        (false, 3) => semilegal::gen_simple_no_promote(b),
        (false, 4) => semilegal::gen_simple_promote(b),
        (true, 0) => legal::gen_all(b),
        (true, 1) => legal::gen_capture(b),
        (true, 2) => legal::gen_simple(b),
        (true, 3) => legal::gen_simple_no_promote(b),
        (true, 4) => legal::gen_simple_promote(b),
        _ => return None,
    })
}

fn bit01(b: bool) -> &'static str {
    if b {
        "1"
    } else {
        "0"
    }
}

fn run_inner(line: &str) -> String {
    let t: Vec<&str> = line.split(' ').collect();
    let op = t[0];
    match op {
        "validate" => {
            let raw = tryo!(raw_parse(&t[1..]));
            match Board::try_from(raw) {
                Ok(b) => format!("ok {}", full_fmt(&b)),
                Err(e) => format!("err:{}", e_board_validate(&e)),
            }
        }
        "gen" => {
            if t.len() != 9 {
                return BADARG.to_string();
            }
            let b = tryb!(board_of(&t[1..7]));
            let which: u8 = tryo!(t[7].parse().ok());
            let lg: u8 = tryo!(t[8].parse().ok());
            if lg > 1 {
                return BADARG.to_string();
            }
            let l = tryo!(gen_list(&b, which, lg == 1));
            mvs_fmt(l.iter())
        }
        "genvec" => {
            let b = tryb!(board_of(&t[1..]));
            let mut v: Vec<Move> = Vec::new();
            semilegal::gen_all_into(&b, &mut v);
            v.len().to_string()
        }
        "geninto2" => {
            // the safe `gen_all_into` API appending two positions' moves to ONE `MoveList` (256 slots, checked push)
            if t.len() != 13 {
                return BADARG.to_string();
            }
            let b1 = tryb!(board_of(&t[1..7]));
            let b2 = tryb!(board_of(&t[7..13]));
            let mut l = owlchess::movegen::MoveList::new();
            semilegal::gen_all_into(&b1, &mut l);
            semilegal::gen_all_into(&b2, &mut l);
            format!("len={}", l.len())
        }
        "wfbulk" => {
            if t.len() != 3 {
                return BADARG.to_string();
            }
            let k: u8 = tryo!(t[1].parse().ok());
            let c: u8 = tryo!(t[2].parse().ok());
            if k > 9 || c > 12 {
                return BADARG.to_string();
            }
            let mut out = String::with_capacity(1024);
            for j in 0..1024u32 {
                let mut dgt = 0u32;
                for i in 0..4u32 {
                    let idx = 4 * j + i;
                    let s = (idx / 64) as u8;
                    let d = (idx % 64) as u8;
                    if mv4_new((k, c, s, d)).is_ok() {
                        dgt |= 1 << i;
                    }
                }
                out.push(char::from_digit(dgt, 16).unwrap());
            }
            out
        }
        "semibulk" => {
            let b = tryb!(board_of(&t[1..]));
            let mut v: Vec<Mv4> = Vec::new();
            for k in 0..10u8 {
                for c in 0..13u8 {
                    for s in 0..64u8 {
                        for d in 0..64u8 {
                            if let Ok(m) = mv4_new((k, c, s, d)) {
                                if m.is_semilegal(&b) {
                                    v.push((k, c, s, d));
                                }
                            }
                        }
                    }
                }
            }
            mvs_fmt_tuples(v)
        }
        "mvalidate" => {
            if t.len() != 8 {
                return BADARG.to_string();
            }
            let b = tryb!(board_of(&t[1..7]));
            let m4 = tryo!(mv4_parse(t[7]));
            let m = match mv4_new(m4) {
                Ok(m) => m,
                Err(_) => return "notwf".to_string(),
            };
            match m.validate(&b) {
                Ok(()) => "ok".to_string(),
                Err(e) => format!("err:{}", e_mv_validate(&e)),
            }
        }
        "legalunchecked" => {
            if t.len() != 8 {
                return BADARG.to_string();
            }
            let b = tryb!(board_of(&t[1..7]));
            let m4 = tryo!(mv4_parse(t[7]));
            let m = match mv4_new(m4) {
                Ok(m) => m,
                Err(_) => return "n/a".to_string(),
            };
            if !m.is_semilegal(&b) {
                return "n/a".to_string();
            }
            bit01(unsafe { m.is_legal_unchecked(&b) }).to_string()
        }
        "make" => {
            if t.len() != 8 {
                return BADARG.to_string();
            }
            let b = tryb!(board_of(&t[1..7]));
            let m4 = tryo!(mv4_parse(t[7]));
            let m = match mv4_new(m4) {
                Ok(m) => m,
                Err(_) => return "n/a".to_string(),
            };
            if !(m == Move::NULL || m.is_semilegal(&b)) {
                return "n/a".to_string();
            }
            let mut b2 = b.clone();
            let u = unsafe { moves::make_move_unchecked(&mut b2, m) };
            let after = full_fmt(&b2);
            let opp_king = Cell::from_parts(b2.side().inv(), Piece::King);
            let opp = if b2.piece(opp_king).is_empty() {
                "nok"
            } else {
                bit01(b2.is_opponent_king_attacked())
            };
            unsafe { moves::unmake_move_unchecked(&mut b2, m, u) };
            format!("{} | oppking={} | {}", after, opp, full_fmt(&b2))
        }
        "makelike" => {
            if t.len() != 9 {
                return BADARG.to_string();
            }
            let b = tryb!(board_of(&t[1..7]));
            op_makelike(&b, t[7], t[8])
        }
        "attackers" => {
            let b = tryb!(board_of(&t[1..]));
            attackers_fmt(&b)
        }
        "queryafter" => {
            // attack / check queries on the board object a move produced, and on the same object after the move was
            // taken back (incrementally maintained sets, not a re-validated copy)
            if t.len() != 8 {
                return BADARG.to_string();
            }
            let b = tryb!(board_of(&t[1..7]));
            let m4 = tryo!(mv4_parse(t[7]));
            let m = match mv4_new(m4) {
                Ok(m) => m,
                Err(_) => return "n/a".to_string(),
            };
            if !m.is_semilegal(&b) {
                return "n/a".to_string();
            }
            let mut b2 = b.clone();
            let u = unsafe { moves::make_move_unchecked(&mut b2, m) };
            let legal = !b2.is_opponent_king_attacked();
            let first = if legal {
                format!("{} | {}", attackers_fmt(&b2), check_fmt(&b2))
            } else {
                "- | -".to_string()
            };
            unsafe { moves::unmake_move_unchecked(&mut b2, m, u) };
            format!("{} | {} | {}", first, attackers_fmt(&b2), check_fmt(&b2))
        }
        "check" => {
            let b = tryb!(board_of(&t[1..]));
            format!("{} {}", bit01(b.is_check()), hex(b.checkers().as_raw()))
        }
        "outcome" => {
            let b = tryb!(board_of(&t[1..]));
            outcome_fmt(&b)
        }
        "outcomeafter" => {
            // the classification of the position REACHED by a move, on the very board object the move produced (its
            // incrementally maintained sets and hash, not a re-validated copy)
            if t.len() != 8 {
                return BADARG.to_string();
            }
            let b = tryb!(board_of(&t[1..7]));
            let m4 = tryo!(mv4_parse(t[7]));
            let m = match mv4_new(m4) {
                Ok(m) => m,
                Err(_) => return "n/a".to_string(),
            };
            match b.make_move(m) {
                Ok(nb) => outcome_fmt(&nb),
                Err(_) => "n/a".to_string(),
            }
        }
        "fenparse" => {
            if t.len() != 2 {
                return BADARG.to_string();
            }
            let s = tryo!(str_dec(t[1]));
            match RawBoard::from_str(&s) {
                Ok(r) => {
                    // parse-format-parse stability (C08) on the implementation itself
                    let rt = RawBoard::from_str(&r.to_string()) == Ok(r);
                    format!("ok {} rt={}", raw_fmt(&r), bit01(rt))
                }
                Err(e) => format!("err:{}", e_raw_fen(&e)),
            }
        }
        "fenboard" => {
            if t.len() != 2 {
                return BADARG.to_string();
            }
            let s = tryo!(str_dec(t[1]));
            match Board::from_str(&s) {
                Ok(b) => format!("ok {}", full_fmt(&b)),
                Err(e) => format!("err:{}", e_fen(&e)),
            }
        }
        "fenformat" => {
            if pre_active() {
                // under an object prefix: the FEN of that board object (`Board::as_fen`), plus its own round trip
                let b = tryb!(board_of(&t[1..]));
                let text = b.as_fen();
                if Board::from_fen(&text).ok().as_ref() != Some(&b) {
                    return format!("{} does-not-parse-back", str_enc(&text));
                }
                return str_enc(&text);
            }
            let raw = tryo!(raw_parse(&t[1..]));
            str_enc(&raw.to_string())
        }
        "uciparse" => {
            if t.len() != 2 {
                return BADARG.to_string();
            }
            let s = tryo!(str_dec(t[1]));
            match uci::Move::from_str(&s) {
                Ok(m) => {
                    let rt = uci::Move::from_str(&m.to_string()) == Ok(m);
                    format!("ok {} {} rt={}", uci_move_fmt(&m), str_enc(&m.to_string()), bit01(rt))
                }
                Err(e) => format!("err:{}", e_uci_raw(&e)),
            }
        }
        "uciinto" => {
            if t.len() != 9 {
                return BADARG.to_string();
            }
            let b = tryb!(board_of(&t[1..7]));
            let s = tryo!(str_dec(t[7]));
            match t[8] {
                "basic" => match Move::from_uci(&s, &b) {
                    Ok(m) => format!("ok {}", mv_fmt(&m)),
                    Err(e) => format!("err:{}", e_uci_basic(&e)),
                },
                "semi" => match Move::from_uci_semilegal(&s, &b) {
                    Ok(m) => format!("ok {}", mv_fmt(&m)),
                    Err(e) => format!("err:{}", e_uci(&e)),
                },
                "legal" => match Move::from_uci_legal(&s, &b) {
                    Ok(m) => format!("ok {}", mv_fmt(&m)),
                    Err(e) => format!("err:{}", e_uci(&e)),
                },
                _ => BADARG.to_string(),
            }
        }
        "ucifmt" => {
            if t.len() != 2 {
                return BADARG.to_string();
            }
            let m4 = tryo!(mv4_parse(t[1]));
            let m = unsafe { mv4_new_unchecked(m4) };
            str_enc(&m.to_string())
        }
        "sanparse" => {
            if t.len() != 2 {
                return BADARG.to_string();
            }
            let s = tryo!(str_dec(t[1]));
            match san::Move::from_str(&s) {
                Ok(m) => {
                    let rt = san::Move::from_str(&m.to_string()) == Ok(m);
                    format!(
                        "ok {} {} {} rt={}",
                        san_data_fmt(&m.data),
                        san_check_fmt(&m.check),
                        str_enc(&m.to_string()),
                        bit01(rt)
                    )
                }
                Err(e) => format!("err:{}", e_san_raw(&e)),
            }
        }
        "saninto" => {
            if t.len() != 8 {
                return BADARG.to_string();
            }
            let b = tryb!(board_of(&t[1..7]));
            let s = tryo!(str_dec(t[7]));
            match Move::from_san(&s, &b) {
                Ok(m) => format!("ok {}", mv_fmt(&m)),
                Err(e) => format!("err:{}", e_san(&e)),
            }
        }
        "sanof" => {
            if t.len() != 8 {
                return BADARG.to_string();
            }
            let b = tryb!(board_of(&t[1..7]));
            let m4 = tryo!(mv4_parse(t[7]));
            let m = match mv4_new(m4) {
                Ok(m) => m,
                Err(_) => return "notwf".to_string(),
            };
            match m.san(&b) {
                Ok(s) => format!("ok {}", str_enc(&s.to_string())),
                Err(e) => format!("err:{}", e_mv_validate(&e)),
            }
        }
        "parse" => {
            if t.len() != 3 {
                return BADARG.to_string();
            }
            let s = tryo!(str_dec(t[2]));
            match t[1] {
                "coord" => match Coord::from_str(&s) {
                    Ok(c) => format!("ok {} {} rt={}", c.index(), str_enc(&c.to_string()), bit01(Coord::from_str(&c.to_string()) == Ok(c))),
                    Err(e) => format!("err:{}", e_coord(&e)),
                },
                "cell" => match Cell::from_str(&s) {
                    Ok(c) => format!("ok {} {} rt={}", c.index(), str_enc(&c.to_string()), bit01(Cell::from_str(&c.to_string()) == Ok(c))),
                    Err(e) => format!("err:{}", e_cell(&e)),
                },
                "color" => match Color::from_str(&s) {
                    Ok(c) => format!("ok {} {} rt={}", c as u8, str_enc(&c.to_string()), bit01(Color::from_str(&c.to_string()) == Ok(c))),
                    Err(e) => format!("err:{}", e_color(&e)),
                },
                "rights" => match CastlingRights::from_str(&s) {
                    Ok(c) => format!("ok {} {} rt={}", c.index(), str_enc(&c.to_string()), bit01(CastlingRights::from_str(&c.to_string()) == Ok(c))),
                    Err(e) => format!("err:{}", e_rights(&e)),
                },
                _ => BADARG.to_string(),
            }
        }
        "atk" => {
            if t.len() != 4 {
                return BADARG.to_string();
            }
            let sq: usize = tryo!(t[2].parse().ok());
            if sq > 63 {
                return BADARG.to_string();
            }
            let occ = Bitboard::from_raw(tryo!(bbx_dec(t[3])));
            let c = Coord::from_index(sq);
            let r = match t[1] {
                "k" => verif::attack_king(c),
                "n" => verif::attack_knight(c),
                "pw" => verif::attack_pawn(Color::White, c),
                "pb" => verif::attack_pawn(Color::Black, c),
                "r" => verif::attack_rook(c, occ),
                "b" => verif::attack_bishop(c, occ),
                _ => return BADARG.to_string(),
            };
            hex(r.as_raw())
        }
        "btw" => {
            if t.len() != 3 {
                return BADARG.to_string();
            }
            let a: usize = tryo!(t[1].parse().ok());
            let b: usize = tryo!(t[2].parse().ok());
            if a > 63 || b > 63 {
                return BADARG.to_string();
            }
            let (a, b) = (Coord::from_index(a), Coord::from_index(b));
            format!(
                "{} {} {} {}",
                hex(verif::between_bishop_strict(a, b).as_raw()),
                hex(verif::between_rook_strict(a, b).as_raw()),
                bit01(verif::between_is_bishop_valid(a, b)),
                bit01(verif::between_is_rook_valid(a, b))
            )
        }
        "bb" => op_bb(&t),
        "conv" => {
            if t.len() != 2 {
                return BADARG.to_string();
            }
            op_conv(t[1])
        }
        "fromchar" => {
            // `from_char` of the base types on an arbitrary Unicode scalar value
            if t.len() != 3 {
                return BADARG.to_string();
            }
            let cp: u32 = tryo!(t[2].parse().ok());
            let ch = tryo!(char::from_u32(cp));
            let r: Option<usize> = match t[1] {
                "file" => File::from_char(ch).map(|x| x.index()),
                "rank" => Rank::from_char(ch).map(|x| x.index()),
                "cell" => Cell::from_char(ch).map(|x| x.index()),
                "color" => Color::from_char(ch).map(|x| x as u8 as usize),
                _ => return BADARG.to_string(),
            };
            match r {
                Some(i) => i.to_string(),
                None => "none".to_string(),
            }
        }
        "chain" => chainops::run_chain(line),
        "perft" => {
            if t.len() != 8 {
                return BADARG.to_string();
            }
            let b = tryb!(board_of(&t[1..7]));
            let d: u32 = tryo!(t[7].parse().ok());
            perft(&b, d).to_string()
        }
        "mirror" => {
            if t.len() != 8 {
                return BADARG.to_string();
            }
            let b = tryb!(board_of(&t[1..7]));
            op_mirror(&b, t[7])
        }
        _ => "badop".to_string(),
    }
}

fn attackers_fmt(b: &Board) -> String {
    let mut out = String::new();
    let mut masks = [0u64; 2];
    for (ci, col) in [Color::White, Color::Black].into_iter().enumerate() {
        for sq in 0..64 {
            let c = Coord::from_index(sq);
            let a = movegen::cell_attackers(b, c, col);
            if !(ci == 0 && sq == 0) {
                out.push(',');
            }
            out.push_str(&hex(a.as_raw()));
            if movegen::is_cell_attacked(b, c, col) {
                masks[ci] |= 1u64 << sq;
            }
        }
    }
    format!("{} {} {}", out, hex(masks[0]), hex(masks[1]))
}

fn check_fmt(b: &Board) -> String {
    format!("{} {}", bit01(b.is_check()), hex(b.checkers().as_raw()))
}

pub fn outcome_fmt(b: &Board) -> String {
    format!(
        "{} {} {} {}",
        out_fmt(&b.calc_outcome()),
        draw_opt_fmt(&b.calc_draw_simple()),
        bit01(b.has_legal_moves()),
        bit01(b.is_check())
    )
}

fn perft(b: &Board, d: u32) -> u64 {
    if d == 0 {
        return 1;
    }
    let l = legal::gen_all(b);
    if d == 1 {
        return l.len() as u64;
    }
    let mut n = 0;
    for m in l.iter() {
        let mut b2 = b.clone();
        let _ = unsafe { moves::make_move_unchecked(&mut b2, *m) };
        n += perft(&b2, d - 1);
    }
    n
}

pub fn san_data_fmt(d: &san::Data) -> String {
    fn of(f: &Option<File>) -> String {
        match f {
            Some(f) => f.index().to_string(),
            None => "-".to_string(),
        }
    }
    fn or(r: &Option<Rank>) -> String {
        match r {
            Some(r) => r.index().to_string(),
            None => "-".to_string(),
        }
    }
    match d {
        san::Data::Uci(u) => format!("uci:{}", uci_move_fmt(u)),
        san::Data::Castling(CastlingSide::King) => "castle:K".to_string(),
        san::Data::Castling(CastlingSide::Queen) => "castle:Q".to_string(),
        san::Data::PawnMove { dst, promote } => {
            format!("pm:{}.{}", dst.index(), promote_code(*promote))
        }
        san::Data::PawnCapture { src, dst, promote } => {
            format!("pc:{}.{}.{}", src.index(), dst.index(), promote_code(*promote))
        }
        san::Data::PawnCaptureShort { src, dst, promote } => {
            format!("pcs:{}.{}.{}", src.index(), dst.index(), promote_code(*promote))
        }
        san::Data::Simple {
            piece,
            file,
            rank,
            is_capture,
            dst,
        } => format!(
            "simple:{}.{}.{}.{}.{}",
            piece.index(),
            of(file),
            or(rank),
            bit01(*is_capture),
            dst.index()
        ),
    }
}

pub fn san_check_fmt(c: &Option<san::CheckMark>) -> &'static str {
    match c {
        None => "-",
        Some(san::CheckMark::Single) => "+",
        Some(san::CheckMark::Double) => "++",
        Some(san::CheckMark::Checkmate) => "#",
    }
}

fn makelike_finish<E>(
    orig: &Board,
    r1: Result<Board, E>,
    r2: Result<(), E>,
    clone: &Board,
    ef: impl Fn(&E) -> String,
) -> String {
    let orig_full = full_fmt(orig);
    let clone_full = full_fmt(clone);
    match r1 {
        Ok(nb) => {
            let f = full_fmt(&nb);
            let same = r2.is_ok() && f == clone_full;
            format!("ok {} same={}", f, bit01(same))
        }
        Err(e) => {
            let unchanged = clone_full == orig_full;
            let mut s = format!("err:{} unchanged={}", ef(&e), bit01(unchanged));
            // Not part of the protocol: flag a disagreement between `make` and `make_raw`
            // on the error itself, which the protocol has no field for.
            match r2 {
                Ok(()) => s.push_str(" raw=ok"),
                Err(e2) => {
                    if ef(&e2) != ef(&e) {
                        s.push_str(&format!(" raw=err:{}", ef(&e2)));
                    }
                }
            }
            s
        }
    }
}

fn op_makelike(b: &Board, kind: &str, payload: &str) -> String {
    let mut cl = b.clone();
    match kind {
        "move" => {
            let m4 = match mv4_parse(payload) {
                Some(x) => x,
                None => return BADARG.to_string(),
            };
            let m = match mv4_new(m4) {
                Ok(m) => m,
                Err(_) => return "notwf".to_string(),
            };
            let r1 = m.make(b);
            let r2 = m.make_raw(&mut cl).map(|_| ());
            makelike_finish(b, r1, r2, &cl, |e| e_mv_validate(e).to_string())
        }
        "ucimove" => {
            let s = match str_dec(payload) {
                Some(x) => x,
                None => return BADARG.to_string(),
            };
            let m = match uci::Move::from_str(&s) {
                Ok(m) => m,
                Err(_) => return "parse-err".to_string(),
            };
            let r1 = m.make(b);
            let r2 = m.make_raw(&mut cl).map(|_| ());
            makelike_finish(b, r1, r2, &cl, e_uci)
        }
        "ucistr" => {
            let s = match str_dec(payload) {
                Some(x) => x,
                None => return BADARG.to_string(),
            };
            let r1 = make::Uci(&s).make(b);
            let r2 = make::Uci(&s).make_raw(&mut cl).map(|_| ());
            makelike_finish(b, r1, r2, &cl, e_uci)
        }
        "sanmove" => {
            let s = match str_dec(payload) {
                Some(x) => x,
                None => return BADARG.to_string(),
            };
            let m = match san::Move::from_str(&s) {
                Ok(m) => m,
                Err(_) => return "parse-err".to_string(),
            };
            let r1 = m.make(b);
            let r2 = m.make_raw(&mut cl).map(|_| ());
            makelike_finish(b, r1, r2, &cl, e_san_into)
        }
        "sanstr" => {
            let s = match str_dec(payload) {
                Some(x) => x,
                None => return BADARG.to_string(),
            };
            let r1 = make::San(&s).make(b);
            let r2 = make::San(&s).make_raw(&mut cl).map(|_| ());
            makelike_finish(b, r1, r2, &cl, e_san)
        }
        _ => BADARG.to_string(),
    }
}

fn sq_arg(t: &str) -> Option<Coord> {
    let s: usize = t.parse().ok()?;
    if s > 63 {
        return None;
    }
    Some(Coord::from_index(s))
}

fn op_bb(t: &[&str]) -> String {
    if t.len() < 2 {
        return BADARG.to_string();
    }
    let sub = t[1];
    let a = |i: usize| -> Option<Bitboard> { t.get(i).and_then(|x| bbx_dec(x)).map(Bitboard::from_raw) };
    let h = |b: Bitboard| hex(b.as_raw());
    match (sub, t.len()) {
        ("and", 4) => h(tryo!(a(2)) & tryo!(a(3))),
        ("or", 4) => h(tryo!(a(2)) | tryo!(a(3))),
        ("xor", 4) => h(tryo!(a(2)) ^ tryo!(a(3))),
        // the compound-assignment forms (`a &= b`, `a |= b`, `a ^= b`) are separate trait impls
        ("andassign", 4) => {
            let mut x = tryo!(a(2));
            x &= tryo!(a(3));
            h(x)
        }
        ("orassign", 4) => {
            let mut x = tryo!(a(2));
            x |= tryo!(a(3));
            h(x)
        }
        ("xorassign", 4) => {
            let mut x = tryo!(a(2));
            x ^= tryo!(a(3));
            h(x)
        }
        ("not", 3) => h(!tryo!(a(2))),
        ("with", 4) => h(tryo!(a(2)).with(tryo!(sq_arg(t[3])))),
        ("without", 4) => h(tryo!(a(2)).without(tryo!(sq_arg(t[3])))),
        ("has", 4) => bit01(tryo!(a(2)).has(tryo!(sq_arg(t[3])))).to_string(),
        ("len", 3) => tryo!(a(2)).len().to_string(),
        ("iter", 3) => {
            let v: Vec<String> = tryo!(a(2)).into_iter().map(|c| c.index().to_string()).collect();
            if v.is_empty() {
                "-".to_string()
            } else {
                v.join(",")
            }
        }
        ("fliprank", 3) => h(tryo!(a(2)).flipped_rank()),
        ("flipfile", 3) => h(tryo!(a(2)).flipped_file()),
        ("deposit", 4) => h(tryo!(a(2)).deposit_bits(tryo!(bbx_dec(t[3])))),
        ("shl", 4) => {
            let n: usize = tryo!(t[3].parse().ok());
            h(tryo!(a(2)).shl(n))
        }
        ("shr", 4) => {
            let n: usize = tryo!(t[3].parse().ok());
            h(tryo!(a(2)).shr(n))
        }
        ("sq", 3) => {
            let c = tryo!(sq_arg(t[2]));
            format!(
                "{} {} {} {} {} {}",
                c.file().index(),
                c.rank().index(),
                c.flipped_rank().index(),
                c.flipped_file().index(),
                c.diag(),
                c.antidiag()
            )
        }
        ("shift", 5) => {
            let c = tryo!(sq_arg(t[2]));
            let df: isize = tryo!(t[3].parse().ok());
            let dr: isize = tryo!(t[4].parse().ok());
            match c.shift(df, dr) {
                Some(x) => x.index().to_string(),
                None => "-".to_string(),
            }
        }
        ("add", 4) => {
            let c = tryo!(sq_arg(t[2]));
            let delta: isize = tryo!(t[3].parse().ok());
            match catch_unwind(AssertUnwindSafe(|| c.add(delta))) {
                Ok(x) => x.index().to_string(),
                Err(_) => "panic".to_string(),
            }
        }
        ("const", 2) => {
            let mut v: Vec<String> = Vec::with_capacity(48);
            for d in bitboard_consts::DIAG.iter() {
                v.push(h(*d));
            }
            for d in bitboard_consts::ANTIDIAG.iter() {
                v.push(h(*d));
            }
            for r in Rank::iter() {
                v.push(h(bitboard_consts::rank(r)));
            }
            for f in File::iter() {
                v.push(h(bitboard_consts::file(f)));
            }
            v.push(h(bitboard_consts::LIGHT_SQUARES));
            v.push(h(bitboard_consts::DARK_SQUARES));
            v.join(",")
        }
        _ => BADARG.to_string(),
    }
}

/// indices probed at the checked index constructors: 0..=70 and values whose LOW BITS look like a valid index (a check
/// made after a narrowing cast accepts exactly these)
pub const EXTRA_PROBES: [usize; 30] = [
    127, 128, 191, 192, 255, 256, 257, 300, 319, 320, 321, 511, 512, 575, 576, 1023, 1024, 4095, 4096, 65535, 65536, 65599,
    65600, 16777216, 4294967295, 4294967296, 4294967297, 4294967359, 9223372036854775808, 18446744073709551615,
];

fn succ_string(f: impl Fn(usize)) -> String {
    let mut s = String::with_capacity(101);
    for n in (0..=70usize).chain(EXTRA_PROBES.iter().copied()) {
        let ok = catch_unwind(AssertUnwindSafe(|| f(n))).is_ok();
        s.push(if ok { '1' } else { '0' });
    }
    s
}

fn op_conv(ty: &str) -> String {
    match ty {
        "file" => {
            let v: Vec<String> = File::iter()
                .map(|f| format!("{}:{}", f.index(), f.as_char()))
                .collect();
            format!(
                "{} {}",
                v.join(","),
                succ_string(|n| {
                    let _ = File::from_index(n);
                })
            )
        }
        "rank" => {
            let v: Vec<String> = Rank::iter()
                .map(|f| format!("{}:{}", f.index(), f.as_char()))
                .collect();
            format!(
                "{} {}",
                v.join(","),
                succ_string(|n| {
                    let _ = Rank::from_index(n);
                })
            )
        }
        "coord" => {
            let v: Vec<String> = Coord::iter()
                .map(|f| format!("{}:{}", f.index(), f))
                .collect();
            format!(
                "{} {}",
                v.join(","),
                succ_string(|n| {
                    let _ = Coord::from_index(n);
                })
            )
        }
        "piece" => {
            let v: Vec<String> = Piece::iter()
                .map(|f| format!("{}:{:?}", f.index(), f))
                .collect();
            format!(
                "{} {}",
                v.join(","),
                succ_string(|n| {
                    let _ = Piece::from_index(n);
                })
            )
        }
        "cell" => {
            let v: Vec<String> = Cell::iter()
                .map(|f| format!("{}:{}", f.index(), f.as_char()))
                .collect();
            format!(
                "{} {}",
                v.join(","),
                succ_string(|n| {
                    let _ = Cell::from_index(n);
                })
            )
        }
        "color" => {
            let v: Vec<String> = [Color::White, Color::Black]
                .iter()
                .map(|f| format!("{}:{}", *f as u8, f.as_char()))
                .collect();
            let mut s = String::new();
            for n in 0..=70u8 {
                let ok = Color::from_char((n + 33) as char).is_some();
                s.push(if ok { '1' } else { '0' });
            }
            format!("{} {}", v.join(","), s)
        }
        "rights" => {
            let v: Vec<String> = (0..16)
                .map(|i| {
                    let r = CastlingRights::from_index(i);
                    format!("{}:{}", r.index(), r)
                })
                .collect();
            format!(
                "{} {}",
                v.join(","),
                succ_string(|n| {
                    let _ = CastlingRights::from_index(n);
                })
            )
        }
        "geom" => {
            let mut v: Vec<String> = Vec::new();
            for c in [Color::White, Color::Black] {
                v.push(geometry::castling_rank(c).index().to_string());
                v.push(geometry::double_move_src_rank(c).index().to_string());
                v.push(geometry::double_move_dst_rank(c).index().to_string());
                v.push(geometry::promote_src_rank(c).index().to_string());
                v.push(geometry::promote_dst_rank(c).index().to_string());
                v.push(geometry::enpassant_src_rank(c).index().to_string());
                v.push(geometry::enpassant_dst_rank(c).index().to_string());
                v.push(geometry::pawn_forward_delta(c).to_string());
                v.push(geometry::pawn_left_delta(c).to_string());
                v.push(geometry::pawn_right_delta(c).to_string());
            }
            v.join(" ")
        }
        _ => BADARG.to_string(),
    }
}

// ---------------------------------------------------------------- mirror

fn swap_cell_color(c: usize) -> usize {
    match c {
        0 => 0,
        1..=6 => c + 6,
        _ => c - 6,
    }
}

pub fn mirror_raw_v(r: &RawBoard) -> RawBoard {
    let mut cells = [Cell::EMPTY; 64];
    for sq in 0..64 {
        cells[sq ^ 56] = Cell::from_index(swap_cell_color(r.cells[sq].index()));
    }
    let ri = r.castling.index();
    // bits: 0 = white queen side, 1 = white king side, 2 = black queen side, 3 = black king side
    let rights = ((ri & 3) << 2) | ((ri >> 2) & 3);
    RawBoard {
        cells,
        side: r.side.inv(),
        castling: CastlingRights::from_index(rights),
        ep_source: r.ep_source.map(|c| Coord::from_index(c.index() ^ 56)),
        move_counter: r.move_counter,
        move_number: r.move_number,
    }
}

pub fn mirror_raw_h(r: &RawBoard) -> RawBoard {
    let mut cells = [Cell::EMPTY; 64];
    for sq in 0..64 {
        cells[sq ^ 7] = r.cells[sq];
    }
    RawBoard {
        cells,
        side: r.side,
        castling: r.castling,
        ep_source: r.ep_source.map(|c| Coord::from_index(c.index() ^ 7)),
        move_counter: r.move_counter,
        move_number: r.move_number,
    }
}

fn mirror_items(b: &Board, back: Option<char>) -> String {
    let l = legal::gen_all(b);
    let mut v: Vec<Mv4> = l.iter().map(mv4_of).collect();
    let mut out = b.calc_outcome();
    match back {
        Some('v') => {
            for m in v.iter_mut() {
                *m = (m.0, swap_cell_color(m.1 as usize) as u8, m.2 ^ 56, m.3 ^ 56);
            }
            if let Some(owlchess::Outcome::Win { side, reason }) = out {
                out = Some(owlchess::Outcome::Win {
                    side: side.inv(),
                    reason,
                });
            }
        }
        Some('h') => {
            for m in v.iter_mut() {
                *m = (m.0, m.1, m.2 ^ 7, m.3 ^ 7);
            }
        }
        _ => {}
    }
    format!(
        "{} {} {}",
        mvs_fmt_tuples(v),
        out_fmt(&out),
        bit01(b.is_check())
    )
}

fn op_mirror(b: &Board, mode: &str) -> String {
    let a = mirror_items(b, None);
    let (mr, tag) = match mode {
        "v" => (mirror_raw_v(b.raw()), 'v'),
        "h" => {
            if b.raw().castling.index() != 0 {
                return "n/a".to_string();
            }
            (mirror_raw_h(b.raw()), 'h')
        }
        _ => return BADARG.to_string(),
    };
    match Board::try_from(mr) {
        Ok(mb) => format!("{} | {}", a, mirror_items(&mb, Some(tag))),
        Err(_) => format!("{} | invalid", a),
    }
}
