//! Position generator families F1 (random repaired), F2 (playouts), F3 (directed,
//! enumerated), F4 (raw boards for the validation gate) and F6 (move tuples).

use crate::codec::{self, Mv4, CELL_CHARS};
use crate::ops::mirror_raw_v;
use crate::rng::Rng;
use owlchess::movegen::{legal, semilegal};
use owlchess::moves::{Make, Move, MoveKind};
use owlchess::types::{CastlingRights, Cell, Color, Coord};
use owlchess::{Board, RawBoard};
use std::panic::{catch_unwind, AssertUnwindSafe};
use std::str::FromStr;

#[derive(Clone)]
pub struct Pos {
    /// The raw board as sent in the case line (may be un-normalised)
    pub sent: RawBoard,
    /// `Board::try_from(sent)`
    pub board: Board,
    pub fam: &'static str,
}

impl Pos {
    pub fn raw_text(&self) -> String {
        codec::raw_fmt(&self.sent)
    }
}

pub fn pos_of(raw: RawBoard, fam: &'static str) -> Option<Pos> {
    Board::try_from(raw).ok().map(|board| Pos {
        sent: raw,
        board,
        fam,
    })
}

// ------------------------------------------------------------------ mini board

pub const WP: u8 = 1;
pub const WK: u8 = 2;
pub const WN: u8 = 3;
pub const WB: u8 = 4;
pub const WR: u8 = 5;
pub const WQ: u8 = 6;
pub const BP: u8 = 7;
pub const BK: u8 = 8;
pub const BN: u8 = 9;
pub const BB: u8 = 10;
pub const BR: u8 = 11;
pub const BQ: u8 = 12;

pub type Cells = [u8; 64];

fn is_white(c: u8) -> bool {
    (1..=6).contains(&c)
}

fn kind_of(c: u8) -> u8 {
    // 1 P, 2 K, 3 N, 4 B, 5 R, 6 Q
    if c == 0 {
        0
    } else {
        (c - 1) % 6 + 1
    }
}

pub fn sqn(s: &str) -> usize {
    let b = s.as_bytes();
    let file = (b[0] - b'a') as usize;
    let row = (b'8' - b[1]) as usize;
    row * 8 + file
}

fn on_board(r: i32, c: i32) -> bool {
    (0..8).contains(&r) && (0..8).contains(&c)
}

pub const DIRS8: [(i32, i32); 8] = [
    (-1, -1),
    (-1, 0),
    (-1, 1),
    (0, -1),
    (0, 1),
    (1, -1),
    (1, 0),
    (1, 1),
];

const KNIGHT_D: [(i32, i32); 8] = [
    (-2, -1),
    (-2, 1),
    (-1, -2),
    (-1, 2),
    (1, -2),
    (1, 2),
    (2, -1),
    (2, 1),
];

/// Squares of men of the given colour that attack `sq` (generator-side helper; the
/// library is the judge of validity, this is only used to repair placements).
pub fn attackers(cells: &Cells, sq: usize, by_white: bool) -> Vec<usize> {
    let mut v = Vec::new();
    let (r, c) = ((sq / 8) as i32, (sq % 8) as i32);
    let mine = |x: u8| x != 0 && is_white(x) == by_white;
    // pawns
    let pr = if by_white { r + 1 } else { r - 1 };
    for dc in [-1, 1] {
        if on_board(pr, c + dc) {
            let p = (pr * 8 + c + dc) as usize;
            if mine(cells[p]) && kind_of(cells[p]) == 1 {
                v.push(p);
            }
        }
    }
    for (dr, dc) in KNIGHT_D {
        if on_board(r + dr, c + dc) {
            let p = ((r + dr) * 8 + c + dc) as usize;
            if mine(cells[p]) && kind_of(cells[p]) == 3 {
                v.push(p);
            }
        }
    }
    for (dr, dc) in DIRS8 {
        if on_board(r + dr, c + dc) {
            let p = ((r + dr) * 8 + c + dc) as usize;
            if mine(cells[p]) && kind_of(cells[p]) == 2 {
                v.push(p);
            }
        }
        let diag = dr != 0 && dc != 0;
        let (mut rr, mut cc) = (r + dr, c + dc);
        while on_board(rr, cc) {
            let p = (rr * 8 + cc) as usize;
            if cells[p] != 0 {
                let k = kind_of(cells[p]);
                if mine(cells[p]) && (k == 6 || (diag && k == 4) || (!diag && k == 5)) {
                    v.push(p);
                }
                break;
            }
            rr += dr;
            cc += dc;
        }
    }
    v
}

pub fn cells_to_raw(
    cells: &Cells,
    side: Color,
    rights: u8,
    ep: Option<usize>,
    mc: u16,
    mn: u16,
) -> RawBoard {
    let mut r = RawBoard::empty();
    for i in 0..64 {
        r.cells[i] = Cell::from_index(cells[i] as usize);
    }
    r.side = side;
    r.castling = CastlingRights::from_index(rights as usize & 15);
    r.ep_source = ep.map(Coord::from_index);
    r.move_counter = mc;
    r.move_number = mn;
    r
}

pub fn raw_to_cells(r: &RawBoard) -> Cells {
    let mut c = [0u8; 64];
    for i in 0..64 {
        c[i] = r.cells[i].index() as u8;
    }
    c
}

fn allowed_rights(cells: &Cells) -> u8 {
    let mut m = 0u8;
    if cells[60] == WK {
        if cells[56] == WR {
            m |= 1;
        }
        if cells[63] == WR {
            m |= 2;
        }
    }
    if cells[4] == BK {
        if cells[0] == BR {
            m |= 4;
        }
        if cells[7] == BR {
            m |= 8;
        }
    }
    m
}

fn random_submask(rng: &mut Rng, m: u8) -> u8 {
    (rng.below(16) as u8) & m
}

/// Files on which an en-passant mark has the "double-stepped pawn" shape for side `side`
pub fn ep_candidates(cells: &Cells, side: Color) -> Vec<usize> {
    let (row, victim, b1, b2) = match side {
        Color::White => (3usize, BP, 2usize, 1usize),
        Color::Black => (4usize, WP, 5usize, 6usize),
    };
    (0..8)
        .filter(|f| cells[row * 8 + f] == victim && cells[b1 * 8 + f] == 0 && cells[b2 * 8 + f] == 0)
        .map(|f| row * 8 + f)
        .collect()
}

pub fn draw_mc(rng: &mut Rng) -> u16 {
    match rng.weighted(&[40, 10, 35, 15]) {
        0 => 0,
        1 => rng.below(41) as u16,
        2 => *rng.pick(&[
            0u16, 1, 49, 50, 98, 99, 100, 101, 148, 149, 150, 151, 65534, 65535,
        ]),
        _ => rng.below(65536) as u16,
    }
}

pub fn draw_mn(rng: &mut Rng) -> u16 {
    match rng.weighted(&[40, 20, 25, 15]) {
        0 => 1,
        1 => 1 + rng.below(120) as u16,
        2 => *rng.pick(&[1u16, 2, 100, 65534, 65535]),
        _ => rng.below(65536) as u16,
    }
}

// ------------------------------------------------------------------ F1

#[derive(Clone, Copy, PartialEq, Eq, Debug)]
enum Profile {
    Sparse,
    Medium,
    Dense,
    Queens,
    Pawns,
    Bare,
    Minor,
}

fn profile_count(rng: &mut Rng, p: Profile) -> usize {
    (match p {
        Profile::Sparse => rng.range(2, 6),
        Profile::Medium => rng.range(7, 11),
        Profile::Dense => rng.range(12, 16),
        Profile::Queens => rng.range(4, 16),
        Profile::Pawns => rng.range(5, 16),
        Profile::Bare => rng.range(1, 2),
        Profile::Minor => rng.range(2, 4),
    }) as usize
}

fn profile_weights(p: Profile) -> [u32; 5] {
    // P N B R Q
    match p {
        Profile::Queens => [10, 5, 5, 10, 70],
        Profile::Pawns => [85, 4, 4, 4, 3],
        Profile::Minor => [0, 50, 50, 0, 0],
        _ => [50, 12, 12, 14, 12],
    }
}

fn draw_profile(rng: &mut Rng) -> Profile {
    [
        Profile::Sparse,
        Profile::Medium,
        Profile::Dense,
        Profile::Queens,
        Profile::Pawns,
        Profile::Bare,
        Profile::Minor,
    ][rng.weighted(&[25, 22, 22, 10, 10, 5, 6])]
}

fn place_men(rng: &mut Rng, cells: &mut Cells, white: bool, mut left: usize, prof: Profile) {
    let w = profile_weights(prof);
    let pawn_cap = if prof == Profile::Pawns && rng.chance(1, 8) {
        15
    } else {
        8
    };
    let base = if white { 0 } else { 6 };
    let mut pawns = cells
        .iter()
        .filter(|&&c| c == if white { WP } else { BP })
        .count();
    let mut guard = 0;
    while left > 0 && guard < 400 {
        guard += 1;
        let k = rng.weighted(&w);
        let kind = [1u8, 3, 4, 5, 6][k];
        if kind == 1 && pawns >= pawn_cap {
            if w[1] + w[2] + w[3] + w[4] == 0 {
                break;
            }
            continue;
        }
        let sq = if kind == 1 {
            8 + rng.usize(48)
        } else {
            rng.usize(64)
        };
        if cells[sq] != 0 {
            continue;
        }
        cells[sq] = base + kind;
        if kind == 1 {
            pawns += 1;
        }
        left -= 1;
    }
}

fn kings_adjacent(a: usize, b: usize) -> bool {
    let (ar, ac, br, bc) = ((a / 8) as i32, (a % 8) as i32, (b / 8) as i32, (b % 8) as i32);
    (ar - br).abs() <= 1 && (ac - bc).abs() <= 1
}

fn count_color(cells: &Cells, white: bool) -> usize {
    cells
        .iter()
        .filter(|&&c| c != 0 && is_white(c) == white)
        .count()
}

fn f1_try(rng: &mut Rng, force: Option<Profile>) -> Option<Pos> {
    let mut cells: Cells = [0; 64];
    let prof_w = match force {
        Some(p) => p,
        None => draw_profile(rng),
    };
    let prof_b = if force.is_none() && rng.chance(1, 5) {
        draw_profile(rng)
    } else {
        prof_w
    };
    let n_w = profile_count(rng, prof_w);
    let n_b = profile_count(rng, prof_b);

    // kings (sometimes at home so that castling rights can survive)
    let wk = if rng.chance(35, 100) { 60 } else { rng.usize(64) };
    let mut bk = if rng.chance(35, 100) { 4 } else { rng.usize(64) };
    let mut guard = 0;
    while bk == wk || kings_adjacent(wk, bk) {
        // adjacent kings are never valid: repair by moving the black king
        bk = rng.usize(64);
        guard += 1;
        if guard > 100 {
            return None;
        }
    }
    cells[wk] = WK;
    cells[bk] = BK;
    let mut left_w = n_w.saturating_sub(1);
    let mut left_b = n_b.saturating_sub(1);
    if wk == 60 {
        for sq in [56usize, 63] {
            if left_w > 0 && cells[sq] == 0 && rng.chance(60, 100) {
                cells[sq] = WR;
                left_w -= 1;
            }
        }
    }
    if bk == 4 {
        for sq in [0usize, 7] {
            if left_b > 0 && cells[sq] == 0 && rng.chance(60, 100) {
                cells[sq] = BR;
                left_b -= 1;
            }
        }
    }
    place_men(rng, &mut cells, true, left_w, prof_w);
    place_men(rng, &mut cells, false, left_b, prof_b);

    let mut side = if rng.chance(1, 2) {
        Color::White
    } else {
        Color::Black
    };

    // en-passant shape booster
    if rng.chance(1, 4) {
        let (row, victim, own, b1, b2) = match side {
            Color::White => (3usize, BP, WP, 2usize, 1usize),
            Color::Black => (4usize, WP, BP, 5usize, 6usize),
        };
        let f = rng.usize(8);
        let sqs = [row * 8 + f, b1 * 8 + f, b2 * 8 + f];
        if sqs.iter().all(|&s| kind_of(cells[s]) != 2) {
            cells[sqs[0]] = victim;
            cells[sqs[1]] = 0;
            cells[sqs[2]] = 0;
            if rng.chance(4, 5) {
                let nf = if f == 0 {
                    1
                } else if f == 7 {
                    6
                } else if rng.chance(1, 2) {
                    f - 1
                } else {
                    f + 1
                };
                let s = row * 8 + nf;
                if kind_of(cells[s]) != 2 {
                    cells[s] = own;
                }
            }
        }
    }
    if count_color(&cells, true) > 16 || count_color(&cells, false) > 16 {
        return None;
    }

    // repair: the king of the side not to move must not be attacked
    let king_sq = |cells: &Cells, white: bool| -> usize {
        cells
            .iter()
            .position(|&c| c == if white { WK } else { BK })
            .unwrap()
    };
    let opp_attacked = |cells: &Cells, side: Color| -> Vec<usize> {
        let mover_white = side == Color::White;
        attackers(cells, king_sq(cells, !mover_white), mover_white)
    };
    if !opp_attacked(&cells, side).is_empty() {
        if opp_attacked(&cells, side.inv()).is_empty() {
            side = side.inv();
        } else {
            let mut guard = 0;
            loop {
                let a = opp_attacked(&cells, side);
                if a.is_empty() {
                    break;
                }
                let victim = *rng.pick(&a);
                if kind_of(cells[victim]) == 2 {
                    return None;
                }
                cells[victim] = 0;
                guard += 1;
                if guard > 20 {
                    return None;
                }
            }
        }
    }

    // Random placements leave the side to move in check far too often; most of the time
    // remove the checkers (a share of in-check positions is kept on purpose).
    if rng.chance(4, 5) {
        let mover_white = side == Color::White;
        let mut guard = 0;
        loop {
            let a = attackers(&cells, king_sq(&cells, mover_white), !mover_white);
            if a.is_empty() || guard >= 6 {
                break;
            }
            guard += 1;
            let victim = *rng.pick(&a);
            if kind_of(cells[victim]) == 2 {
                return None;
            }
            cells[victim] = 0;
        }
    }

    let allowed = allowed_rights(&cells);
    let rights = if rng.chance(15, 100) {
        0
    } else {
        random_submask(rng, allowed)
    };
    let cands = ep_candidates(&cells, side);
    let ep = if !cands.is_empty() && rng.chance(1, 2) {
        Some(*rng.pick(&cands))
    } else {
        None
    };
    let mc = draw_mc(rng);
    let mn = draw_mn(rng);
    let raw = cells_to_raw(&cells, side, rights, ep, mc, mn);
    let board = Board::try_from(raw).ok()?;

    // In about half of the cases send the normalised raw board, otherwise an
    // un-normalised one (junk rights / an ep mark that validation has to drop).
    let mut sent = *board.raw();
    if rng.chance(1, 2) {
        sent = raw;
        if rng.chance(1, 2) {
            sent.castling = CastlingRights::from_index(rng.usize(16));
        }
        if sent.ep_source.is_none() && rng.chance(1, 5) {
            let row = if side == Color::White { 3 } else { 4 };
            sent.ep_source = Some(Coord::from_index(row * 8 + rng.usize(8)));
        }
    }
    pos_of(sent, "F1")
}

pub fn f1(rng: &mut Rng) -> Pos {
    loop {
        if let Some(p) = f1_try(rng, None) {
            return p;
        }
    }
}

/// Dense F1 positions (12..16 men per side, queen-heavy half of the time)
pub fn f1_dense(rng: &mut Rng) -> Pos {
    loop {
        let prof = if rng.chance(3, 5) {
            Profile::Dense
        } else {
            Profile::Queens
        };
        let p = match f1_try(rng, Some(prof)) {
            Some(p) => p,
            None => continue,
        };
        let w = p.board.color(Color::White).len();
        let b = p.board.color(Color::Black).len();
        if w >= 11 && b >= 11 {
            return Pos { fam: "F1dense", ..p };
        }
    }
}

// ------------------------------------------------------------------ F2

pub fn true_legal_moves(b: &Board) -> Vec<Move> {
    // The generators must not depend on ONE legality decider of the library under test: a defect in it would steer
    // them away from exactly the positions that expose it. Two deciders with disjoint code are combined — the legal
    // generator re-checked by `validate` (the `Checker` without the pre-checker shortcut), and the semilegal
    // generator followed by apply-and-test (`Make for Move`: make, look whether the king is attacked, roll back) —
    // and a move counts when either accepts it. Which of the two is right is for the oracle to say.
    let mut v: Vec<Move> = legal::gen_all(b)
        .iter()
        .copied()
        .filter(|m| m.validate(b).is_ok())
        .collect();
    for m in semilegal::gen_all(b).iter() {
        if !v.contains(m) && matches!(catch_unwind(AssertUnwindSafe(|| m.make(b))), Ok(Ok(_))) {
            v.push(*m);
        }
    }
    v
}

pub fn is_interesting(b: &Board, m: &Move) -> bool {
    m.kind() != MoveKind::Simple || b.get(m.dst()).is_occupied()
}

pub fn safe_make(b: &Board, m: Move) -> Option<Board> {
    match catch_unwind(AssertUnwindSafe(|| m.make(b))) {
        Ok(Ok(nb)) => {
            if Board::try_from(*nb.raw()).is_ok() {
                Some(nb)
            } else {
                None
            }
        }
        _ => None,
    }
}

/// Random legal playout; samples positions along the way into `out`.
pub fn playout(
    rng: &mut Rng,
    start: &Board,
    max_depth: usize,
    sample_den: u64,
    max_samples: usize,
    fam: &'static str,
    out: &mut Vec<Pos>,
) {
    let mut b = start.clone();
    let mut samples = 0;
    let bias = rng.chance(1, 2);
    for _ in 0..max_depth {
        let moves = true_legal_moves(&b);
        if moves.is_empty() {
            break;
        }
        let inter: Vec<Move> = moves
            .iter()
            .copied()
            .filter(|m| is_interesting(&b, m))
            .collect();
        let m = if bias && !inter.is_empty() && rng.chance(45, 100) {
            *rng.pick(&inter)
        } else {
            *rng.pick(&moves)
        };
        b = match safe_make(&b, m) {
            Some(nb) => nb,
            None => break,
        };
        let special = b.raw().ep_source.is_some() || b.is_check();
        if samples < max_samples && (rng.chance(1, sample_den) || (special && rng.chance(1, 3))) {
            out.push(Pos {
                sent: *b.raw(),
                board: b.clone(),
                fam,
            });
            samples += 1;
        }
    }
}

/// `n` positions, about half F1 and half F2 (playouts from the initial position and from
/// F1 positions).
pub fn mix_f1_f2(rng: &mut Rng, n: usize) -> Vec<Pos> {
    let mut v: Vec<Pos> = Vec::with_capacity(n + 16);
    while v.len() < n {
        // a playout yields about 7 samples, so 1 in 8 draws keeps the two halves balanced
        if !rng.chance(1, 8) {
            v.push(f1(rng));
        } else {
            let (start, fam) = if rng.chance(1, 2) {
                (Board::initial(), "F2init")
            } else {
                (f1(rng).board, "F2fromF1")
            };
            let depth = 20 + rng.usize(181);
            playout(rng, &start, depth, 8, 8, fam, &mut v);
        }
    }
    v.truncate(n);
    rng.shuffle(&mut v);
    v
}

/// Hands out positions of the F1/F2 mix one at a time
pub struct PosPool {
    buf: Vec<Pos>,
}

impl PosPool {
    pub fn new() -> PosPool {
        PosPool { buf: Vec::new() }
    }
    pub fn draw(&mut self, rng: &mut Rng) -> Pos {
        if self.buf.is_empty() {
            self.buf = mix_f1_f2(rng, 96);
        }
        self.buf.pop().unwrap()
    }
}

// ------------------------------------------------------------------ F3 helpers

#[derive(Clone)]
pub struct Pb {
    pub c: Cells,
    pub side: Color,
    pub rights: u8,
    pub ep: Option<usize>,
    pub mc: u16,
    pub mn: u16,
}

pub fn cell_of_char(ch: char) -> u8 {
    CELL_CHARS.iter().position(|&x| x == ch as u8).unwrap() as u8
}

impl Pb {
    pub fn new(side: Color) -> Pb {
        Pb {
            c: [0; 64],
            side,
            rights: 0,
            ep: None,
            mc: 0,
            mn: 1,
        }
    }
    pub fn put(mut self, s: &str, ch: char) -> Pb {
        self.c[sqn(s)] = cell_of_char(ch);
        self
    }
    pub fn set(&mut self, sq: usize, cell: u8) {
        self.c[sq] = cell;
    }
    pub fn raw(&self) -> RawBoard {
        cells_to_raw(&self.c, self.side, self.rights, self.ep, self.mc, self.mn)
    }
}

/// Adds the position and its colour mirror when valid; returns how many were dropped.
fn add_both(out: &mut Vec<Pos>, raw: RawBoard, fam: &'static str) -> usize {
    let mut dropped = 0;
    match pos_of(raw, fam) {
        Some(p) => out.push(p),
        None => dropped += 1,
    }
    match pos_of(mirror_raw_v(&raw), fam) {
        Some(p) => out.push(p),
        None => dropped += 1,
    }
    dropped
}

fn add_fens(out: &mut Vec<Pos>, fens: &[&str], fam: &'static str) -> Vec<String> {
    let mut bad = Vec::new();
    for f in fens {
        match RawBoard::from_str(f) {
            Ok(r) => {
                if add_both(out, r, fam) != 0 {
                    bad.push(f.to_string());
                }
            }
            Err(_) => bad.push(f.to_string()),
        }
    }
    bad
}

fn ray(from: usize, dr: i32, dc: i32) -> Vec<usize> {
    let (mut r, mut c) = ((from / 8) as i32 + dr, (from % 8) as i32 + dc);
    let mut v = Vec::new();
    while on_board(r, c) {
        v.push((r * 8 + c) as usize);
        r += dr;
        c += dc;
    }
    v
}

fn pick_idx(len: usize, full: bool, which: &[usize]) -> Vec<usize> {
    // `which`: indices from the front; usize::MAX = last
    if full {
        return (0..len).collect();
    }
    let mut v: Vec<usize> = Vec::new();
    for &w in which {
        let i = if w == usize::MAX {
            if len == 0 {
                continue;
            }
            len - 1
        } else {
            w
        };
        if i < len && !v.contains(&i) {
            v.push(i);
        }
    }
    v
}

const FAR_KING_SQUARES: [&str; 12] = [
    "h1", "a1", "h8", "a8", "f1", "c1", "f8", "c8", "h3", "a3", "h6", "a6",
];

/// Puts the black king on the first far square that keeps the board valid
fn with_far_black_king(pb: &Pb, avoid: &[usize], need_ep: bool) -> Option<RawBoard> {
    for name in FAR_KING_SQUARES {
        let s = sqn(name);
        if pb.c[s] != 0 || avoid.contains(&s) {
            continue;
        }
        let mut p = pb.clone();
        p.c[s] = BK;
        let raw = p.raw();
        if let Ok(b) = Board::try_from(raw) {
            if !need_ep || b.raw().ep_source.is_some() {
                return Some(raw);
            }
        }
    }
    None
}

// ------------------------------------------------------------------ F3a

/// En-passant captures with a line piece behind either pawn, as seen from the capturer's king
pub fn f3a(full: bool) -> Vec<Pos> {
    let mut out = Vec::new();
    let cap_files: Vec<usize> = if full {
        (0..8).collect()
    } else {
        vec![0, 1, 3, 6, 7]
    };
    for &cf in &cap_files {
        for flank in [-1i32, 1] {
            let vf = cf as i32 + flank;
            if !(0..8).contains(&vf) {
                continue;
            }
            let vf = vf as usize;
            let cap = 3 * 8 + cf;
            let vic = 3 * 8 + vf;
            let shape = [2 * 8 + vf, 8 + vf];
            for pivot in [cap, vic] {
                for (dr, dc) in DIRS8 {
                    let usable = |v: Vec<usize>| -> Vec<usize> {
                        v.into_iter()
                            .filter(|s| *s != cap && *s != vic && !shape.contains(s))
                            .collect()
                    };
                    let kray_all = ray(pivot, dr, dc);
                    let xray_all = ray(pivot, -dr, -dc);
                    let kray = usable(kray_all.clone());
                    let xray = usable(xray_all.clone());
                    if kray.is_empty() || xray.is_empty() {
                        continue;
                    }
                    let mut line: Vec<usize> = kray_all.clone();
                    line.extend(xray_all.iter());
                    line.push(pivot);
                    let diag = dr != 0 && dc != 0;
                    let pieces: [char; 3] = if diag {
                        ['b', 'q', 'r']
                    } else {
                        ['r', 'q', 'b']
                    };
                    for ki in pick_idx(kray.len(), full, &[0, 1, usize::MAX]) {
                        let xis = pick_idx(xray.len(), full, &[0, usize::MAX]);
                        for (xn, &xi) in xis.iter().enumerate() {
                            for (pn, &pc) in pieces.iter().enumerate() {
                                if !full && pn == 2 && xn + 1 != xis.len() {
                                    continue;
                                }
                                let mut pb = Pb::new(Color::White);
                                pb.set(cap, WP);
                                pb.set(vic, BP);
                                pb.set(kray[ki], WK);
                                pb.set(xray[xi], cell_of_char(pc));
                                pb.ep = Some(vic);
                                if let Some(raw) = with_far_black_king(&pb, &line, true) {
                                    add_both(&mut out, raw, "F3a");
                                }
                            }
                        }
                    }
                }
            }
        }
    }
    // the known defect position, explicitly
    let r = RawBoard::from_str("8/8/8/K2Pp2r/8/8/8/7k w - e6 0 1").unwrap();
    if !out.iter().any(|p| p.sent == r) {
        add_both(&mut out, r, "F3a");
    }
    out.extend(f3_wrap());
    out
}

/// En-passant marks on the a- and h-file with a pawn of the side to move on the square whose INDEX is next to the
/// double-stepped pawn's but which lies on the other edge of the board (h5 | a4, h6 | a5, h4 | a3 …): square arithmetic
/// by `index ± 1` without a file test wraps around exactly there. With and without a genuine capturer.
pub fn f3_wrap() -> Vec<Pos> {
    let mut out = Vec::new();
    add_fens(
        &mut out,
        &[
            "4k3/8/8/7p/P7/8/8/4K3 w - h6 0 1",
            "4k3/8/8/6Pp/P7/8/8/4K3 w - h6 0 1",
            "4k3/8/7P/p7/8/8/8/4K3 w - a6 0 1",
            "4k3/8/7P/pP6/8/8/8/4K3 w - a6 0 1",
            "4k3/8/8/7p/P7/8/8/4K3 b - a3 0 1",
            "4k3/8/8/7p/Pp6/8/8/4K3 b - a3 0 1",
            "4k3/8/8/8/7P/p7/8/4K3 b - h3 0 1",
            "4k3/8/8/8/6pP/p7/8/4K3 b - h3 0 1",
            "r3k2r/8/8/7p/P7/8/8/R3K2R w KQkq h6 0 1",
            "r3k2r/8/8/7p/P7/8/8/R3K2R b KQkq a3 0 1",
            // promotions: a pawn on the last-but-one rank of an edge file and an enemy man on the other edge
            "4k3/p6P/8/8/8/8/8/4K3 w - - 0 1",
            "4k3/P6p/8/8/8/8/8/4K3 w - - 0 1",
            "4k3/8/8/8/8/8/p6P/4K3 b - - 0 1",
            "4k3/8/8/8/8/8/P6p/4K3 b - - 0 1",
            "n3k2n/P6P/8/8/8/8/p6p/N3K2N w - - 0 1",
            "n3k2n/P6P/8/8/8/8/p6p/N3K2N b - - 0 1",
        ],
        "F3a",
    );
    out
}

// ------------------------------------------------------------------ F3b

/// Absolute pins on all 8 rays, pinned man of every kind
pub fn f3b(full: bool) -> Vec<Pos> {
    let mut out = Vec::new();
    let king_sqs: Vec<usize> = if full {
        vec![sqn("d4"), sqn("e1"), sqn("a1"), sqn("e5"), sqn("h4")]
    } else {
        vec![sqn("d4"), sqn("e1")]
    };
    for &k in &king_sqs {
        for (dr, dc) in DIRS8 {
            let r = ray(k, dr, dc);
            if r.len() < 2 {
                continue;
            }
            let diag = dr != 0 && dc != 0;
            let pinners: [char; 2] = if diag { ['b', 'q'] } else { ['r', 'q'] };
            for pd in 0..2usize.min(r.len() - 1) {
                let pinned_sq = r[pd];
                let pinner_choices: Vec<usize> = if full {
                    (pd + 1..r.len()).collect()
                } else {
                    vec![r.len() - 1]
                };
                for &pi in &pinner_choices {
                    for pinned in ['P', 'N', 'B', 'R', 'Q'] {
                        if pinned == 'P' && (pinned_sq / 8 == 0 || pinned_sq / 8 == 7) {
                            continue;
                        }
                        for &pinner in &pinners {
                            let variants = if pinned == 'P' { 2 } else { 1 };
                            for var in 0..variants {
                                let mut pb = Pb::new(Color::White);
                                pb.set(k, WK);
                                pb.set(pinned_sq, cell_of_char(pinned));
                                pb.set(r[pi], cell_of_char(pinner));
                                if var == 1 {
                                    // give the pinned pawn something to capture
                                    let (pr, pc) = ((pinned_sq / 8) as i32, (pinned_sq % 8) as i32);
                                    for d in [-1, 1] {
                                        if on_board(pr - 1, pc + d) {
                                            let s = ((pr - 1) * 8 + pc + d) as usize;
                                            if pb.c[s] == 0 {
                                                pb.set(s, BN);
                                            }
                                        }
                                    }
                                }
                                let mut line = r.clone();
                                line.push(k);
                                if let Some(raw) = with_far_black_king(&pb, &line, false) {
                                    add_both(&mut out, raw, "F3b");
                                }
                            }
                        }
                    }
                }
            }
        }
    }
    out
}

// ------------------------------------------------------------------ F3c

const F3C_FENS: &[&str] = &[
    // double checks
    "4k3/8/8/8/8/5n2/8/r3K3 w - - 0 1",
    "4k3/8/8/8/7b/8/8/r3K3 w - - 0 1",
    "4k3/4r3/8/8/7b/8/8/4K3 w - - 0 1",
    "4k3/4r3/8/8/7b/8/3P4/3QK3 w - - 0 1",
    "4k3/4q3/8/8/8/3n4/8/4K3 w - - 0 1",
    "4k3/8/8/8/1b6/8/5n2/R2QK2R w KQ - 0 1",
    "4k3/8/8/8/8/8/3p1n2/4K3 w - - 0 1",
    "3rk3/8/8/8/8/2n5/8/3K4 w - - 0 1",
    "7k/8/8/8/8/6n1/5PPq/5RK1 w - - 0 1",
    // double check with capture of one checker possible but insufficient
    "4k3/8/8/8/7b/8/4r3/4K3 w - - 0 1",
    // single checks: capture / interposition / king move
    "4k3/8/8/8/8/8/4r3/R3K2R w KQ - 0 1",
    "4k3/4r3/8/8/8/8/3N4/R3K2R w KQ - 0 1",
    "3rk3/8/8/8/8/8/8/R3K2R w KQ - 0 1",
    "4k3/8/8/8/1b6/8/8/R3K2R w KQ - 0 1",
    "4k3/8/8/8/1b6/8/3P4/R2QKB1R w KQ - 0 1",
    "4k3/8/8/q7/8/8/1P1P4/RNBQKBNR w KQ - 0 1",
    "4k3/8/8/8/8/5n2/4P1P1/4K3 w - - 0 1",
    "r3k3/8/8/8/8/8/8/K6R w - - 0 1",
    "4k3/8/8/8/8/2N5/PPn5/K1R5 w - - 0 1",
    // check by a pawn that just made a double step: en-passant removes the checker
    "8/8/8/1Pp5/3K4/8/8/7k w - c6 0 1",
    "8/8/8/2pP4/3K4/8/8/7k w - c6 0 1",
    "8/8/8/1PpP4/3K4/8/8/7k w - c6 0 1",
    // en-passant capture interposes on the checking line
    "b6k/8/8/1Pp5/4K3/8/8/8 w - c6 0 1",
    "7k/8/8/KPp4r/8/8/8/8 w - c6 0 1",
    "7k/8/8/2pP3r/8/8/8/K7 w - c6 0 1",
    // discovered check by the double step, en-passant does not help
    "8/r6K/8/1Pp5/8/8/8/7k w - c6 0 1",
    "3r3k/8/8/2PpP3/8/8/8/3K4 w - d6 0 1",
    // en-passant would expose the king on the file / diagonal
    "4r2k/8/8/3pP3/8/8/8/4K3 w - d6 0 1",
    "7k/8/8/2KPp2q/8/8/8/8 w - e6 0 1",
    "7k/7b/8/3pP3/8/8/2K5/8 w - d6 0 1",
];

pub fn f3c() -> (Vec<Pos>, Vec<String>) {
    let mut out = Vec::new();
    let bad = add_fens(&mut out, F3C_FENS, "F3c");
    (out, bad)
}

// ------------------------------------------------------------------ F3d

/// Castling: attacked / occupied squares, missing rooks, all right subsets, captures on
/// rook home squares.
pub fn f3d(full: bool) -> Vec<Pos> {
    let mut out = Vec::new();
    let base = || {
        Pb::new(Color::White)
            .put("e1", 'K')
            .put("a1", 'R')
            .put("h1", 'R')
            .put("e8", 'k')
            .put("a8", 'r')
            .put("h8", 'r')
    };
    // every subset of rights
    for r in 0..16u8 {
        let mut p = base();
        p.rights = r;
        add_both(&mut out, p.raw(), "F3d");
    }
    let rights_sets: &[u8] = if full { &[15, 1, 2, 3, 12, 0] } else { &[15, 2, 1] };
    // attacked squares b1..g1 by rook (file), knight, bishop
    for tf in 1..=6usize {
        for att in 0..3 {
            let mut p = base();
            match att {
                0 => {
                    // rook on the file, rank 5 (row 3); rows 4..6 of the file are empty
                    p.set(3 * 8 + tf, BR);
                }
                1 => {
                    // knight two rows up, one file to the left
                    p.set(5 * 8 + tf - 1, BN);
                }
                _ => {
                    // bishop on a diagonal, three steps away
                    let c = if tf >= 3 { tf - 3 } else { tf + 3 };
                    p.set(4 * 8 + c, BB);
                }
            }
            for &r in rights_sets {
                let mut q = p.clone();
                q.rights = r;
                add_both(&mut out, q.raw(), "F3d");
            }
        }
    }
    // occupied squares
    for tf in [1usize, 2, 3, 5, 6] {
        for occ in [WN, BN, WB] {
            let mut p = base();
            p.set(56 + tf, occ);
            for &r in rights_sets {
                let mut q = p.clone();
                q.rights = r;
                add_both(&mut out, q.raw(), "F3d");
            }
        }
    }
    // rook missing / replaced, king displaced, rights still claimed (un-normalised input)
    for var in 0..8 {
        let mut p = base();
        match var {
            0 => p.set(56, 0),
            1 => p.set(63, 0),
            2 => {
                p.set(56, 0);
                p.set(63, 0);
            }
            3 => p.set(56, BR),
            4 => p.set(63, BR),
            5 => {
                p.set(60, 0);
                p.set(59, WK);
            }
            6 => p.set(56, WQ),
            _ => {
                p.set(63, WB);
            }
        }
        for r in [15u8, 3, 0] {
            let mut q = p.clone();
            q.rights = r;
            add_both(&mut out, q.raw(), "F3d");
        }
    }
    // pieces moving from / capturing on rook and king home squares
    let fens: &[&str] = &[
        "r3k3/1K6/8/8/8/8/8/8 w q - 0 1",
        "4k2r/6K1/8/8/8/8/8/8 w k - 0 1",
        "r3k2r/1P4P1/8/8/8/8/8/4K3 w kq - 0 1",
        "r3k2r/8/8/8/8/8/8/R3K2R w KQkq - 0 1",
        "r3k2r/8/8/8/8/8/1B6/4K3 w kq - 0 1",
        "r3k2r/8/1N6/8/8/8/8/4K3 w kq - 0 1",
        "r3k2r/8/8/8/8/8/6B1/4K3 w kq - 0 1",
        "r3k2r/8/8/8/8/8/8/R3K2R w KQkq - 65535 1",
        "r3k2r/8/8/8/8/8/8/R3K2R b KQkq - 0 65535",
        "r3k2r/8/8/8/8/8/8/R3K2R w KQkq - 99 50",
        "r3k2r/p6p/8/8/8/8/P6P/R3K2R w KQkq - 0 1",
        "rn2k1nr/8/8/8/8/8/8/RN2K1NR w KQkq - 0 1",
        "r3k2r/8/8/8/8/8/p6p/R3K2R b KQkq - 0 1",
        "r3k2r/8/8/8/8/8/1p4p1/R3K2R b KQkq - 0 1",
        "r3k2r/8/8/8/8/8/8/R3K2R w Kq - 3 9",
        "r3k2r/8/8/8/8/8/8/R3K2R w Qk - 3 9",
    ];
    add_fens(&mut out, fens, "F3d");
    out
}

// ------------------------------------------------------------------ F3e

/// Promotions (all four pieces) with and without capture
pub fn f3e(full: bool) -> Vec<Pos> {
    let mut out = Vec::new();
    let files: Vec<usize> = if full {
        (0..8).collect()
    } else {
        vec![0, 3, 7]
    };
    for &f in &files {
        for fwd in [0u8, BN, WN] {
            for left in [0u8, BR, BN, WN] {
                if f == 0 && left != 0 {
                    continue;
                }
                for right in [0u8, BR, BQ] {
                    if f == 7 && right != 0 {
                        continue;
                    }
                    let mut p = Pb::new(Color::White);
                    p.set(8 + f, WP);
                    p.set(f, fwd);
                    if f > 0 {
                        p.set(f - 1, left);
                    }
                    if f < 7 {
                        p.set(f + 1, right);
                    }
                    p.set(sqn("f2"), WK);
                    p.set(sqn("h5"), BK);
                    add_both(&mut out, p.raw(), "F3e");
                }
            }
        }
    }
    let fens: &[&str] = &[
        "r3k2r/1P4P1/8/8/8/8/8/4K3 w kq - 0 1",
        "1n2k3/P1P5/8/8/8/8/8/4K3 w - - 0 1",
        "4k3/8/8/8/8/8/p1p3p1/1N2K2R b K - 0 1",
        "3rk3/2P5/8/8/8/8/8/3K4 w - - 0 1",
        "3k4/2P5/8/8/8/8/8/3K4 w - - 0 1",
        "8/5P1k/8/8/8/8/8/K7 w - - 7 30",
        "6nk/5P1p/8/8/8/8/8/K7 w - - 0 1",
    ];
    add_fens(&mut out, fens, "F3e");
    out
}

// ------------------------------------------------------------------ F3f

const F3F_FENS: &[&str] = &[
    // stalemates
    "7k/5Q2/6K1/8/8/8/8/8 b - - 0 1",
    "k7/2Q5/1K6/8/8/8/8/8 b - - 0 1",
    "K7/8/2n5/2n2p1p/5P1P/8/8/5k2 w - - 0 1",
    "7K/8/5n2/5n2/8/8/7k/8 w - - 0 1",
    "8/8/8/8/8/6k1/7p/7K w - - 0 1",
    "5bnr/4p1pq/4Qpkr/7p/7P/4P3/PPPP1PP1/RNB1KBNR b KQ - 2 10",
    "k7/P7/K7/8/8/8/8/8 b - - 0 1",
    "8/8/8/8/8/2k5/1r6/K7 w - - 0 1",
    // semilegal moves exist but none is legal (pins / covered squares)
    "k7/8/8/8/8/1q6/8/K7 w - - 0 1",
    "7k/8/8/8/8/8/r7/1r4K1 w - - 0 1",
    "4k3/8/8/8/8/8/3q4/rB2K3 w - - 0 1",
    "K1k5/P7/8/8/8/8/8/7b w - - 0 1",
    "kb5R/8/1K6/8/8/8/8/8 b - - 0 1",
    "8/8/8/8/8/p1k5/P7/K7 w - - 0 1",
    "8/8/8/8/8/5k2/5p2/5K2 w - - 0 1",
    "5k2/5P2/5K2/8/8/8/8/8 b - - 0 1",
    "1r5k/8/8/8/8/8/p7/K7 w - - 0 1",
    "6k1/8/8/8/8/1n6/P2q4/K7 w - - 0 1",
    // checkmates
    "rnb1kbnr/pppp1ppp/8/4p3/6Pq/5P2/PPPPP2P/RNBQKBNR w KQkq - 1 3",
    "r1bqkb1r/pppp1Qpp/2n2n2/4p3/2B1P3/8/PPPP1PPP/RNB1K1NR b KQkq - 0 4",
    "6k1/5ppp/8/8/8/8/8/R3K2r w Q - 0 1",
    "3R2k1/5ppp/8/8/8/8/8/4K3 b - - 0 1",
    "6rk/5Npp/8/8/8/8/8/4K3 b - - 0 1",
    "7k/8/8/8/8/8/1r6/r3K3 w - - 0 1",
    "rn1q1bnr/ppp1kB1p/3p2p1/3NN3/4P3/8/PPPP1PPP/R1BbK2R b KQ - 2 7",
    "k7/1Q6/1K6/8/8/8/8/8 b - - 0 1",
    "8/8/8/8/8/5K1k/8/7R b - - 0 1",
    "7k/6Q1/5K2/8/8/8/8/8 b - - 0 1",
    "R5k1/5ppp/8/8/8/8/8/4K3 b - - 100 80",
    "R5k1/5ppp/8/8/8/8/8/4K3 b - - 150 90",
    // mate-like but escapable (control)
    "R5k1/5pp1/8/8/8/8/8/4K3 b - - 0 1",
    "3R2k1/5ppp/8/8/8/8/4K3/3r4 b - - 0 1",
    "7k/5Q2/5K2/8/8/8/8/8 b - - 0 1",
    // en-passant is the only move / the only way out
    "8/8/8/2k5/3Pp3/8/8/4K3 b - d3 0 1",
    "7k/8/8/8/pP6/P7/8/K7 b - b3 0 1",
    "8/8/8/8/1pP5/kP6/1P6/1K6 b - c3 0 1",
];

pub fn f3f() -> (Vec<Pos>, Vec<String>) {
    let mut out = Vec::new();
    let bad = add_fens(&mut out, F3F_FENS, "F3f");
    (out, bad)
}

// ------------------------------------------------------------------ F3g

fn is_light(sq: usize) -> bool {
    // LIGHT_SQUARES = 0xaa55aa55aa55aa55: a8 (index 0) is light
    (sq / 8 + sq % 8) % 2 == 0
}

/// All material signatures with at most `max_men` non-king men, several placements each
pub fn f3g(rng: &mut Rng, full: bool) -> Vec<Pos> {
    let types: [u8; 10] = [WP, WN, WB, WR, WQ, BP, BN, BB, BR, BQ];
    let mut sigs: Vec<Vec<u8>> = vec![vec![]];
    let max_men = 3;
    // multisets by non-decreasing index
    fn rec(types: &[u8; 10], start: usize, cur: &mut Vec<u8>, left: usize, out: &mut Vec<Vec<u8>>) {
        if left == 0 {
            return;
        }
        for i in start..10 {
            cur.push(types[i]);
            out.push(cur.clone());
            rec(types, i, cur, left - 1, out);
            cur.pop();
        }
    }
    let mut cur = Vec::new();
    rec(&types, 0, &mut cur, max_men, &mut sigs);
    let clocks: [u16; 5] = [0, 99, 100, 149, 150];
    let mut out = Vec::new();
    let placements = if full { 6 } else { 3 };
    for sig in &sigs {
        let bishops = sig.iter().filter(|&&c| c == WB || c == BB).count();
        let only_minor = sig.iter().all(|&c| matches!(c, WN | BN | WB | BB));
        for pl in 0..placements {
            // bishop colour policy: 0 = all light, 1 = all dark, 2+ = free
            let policy = if bishops >= 1 { pl % 3 } else { 2 };
            let mut tries = 0;
            'retry: loop {
                tries += 1;
                if tries > 200 {
                    break;
                }
                let mut cells: Cells = [0; 64];
                let wk = rng.usize(64);
                let mut bk = rng.usize(64);
                while bk == wk || kings_adjacent(wk, bk) {
                    bk = rng.usize(64);
                }
                cells[wk] = WK;
                cells[bk] = BK;
                for &m in sig {
                    let mut g = 0;
                    loop {
                        g += 1;
                        if g > 200 {
                            continue 'retry;
                        }
                        let s = rng.usize(64);
                        if cells[s] != 0 {
                            continue;
                        }
                        if kind_of(m) == 1 && (s < 8 || s >= 56) {
                            continue;
                        }
                        if kind_of(m) == 4 {
                            match policy {
                                0 if !is_light(s) => continue,
                                1 if is_light(s) => continue,
                                _ => {}
                            }
                        }
                        cells[s] = m;
                        break;
                    }
                }
                let side = if rng.chance(1, 2) {
                    Color::White
                } else {
                    Color::Black
                };
                let clock_list: Vec<u16> = if only_minor {
                    clocks.to_vec()
                } else {
                    vec![clocks[(pl + sig.len()) % 5]]
                };
                let raw0 = cells_to_raw(&cells, side, 0, None, 0, 1);
                if Board::try_from(raw0).is_err() {
                    continue 'retry;
                }
                for mc in clock_list {
                    let mut r = raw0;
                    r.move_counter = mc;
                    r.move_number = 1 + mc / 2;
                    if let Some(p) = pos_of(r, "F3g") {
                        out.push(p);
                    }
                }
                break;
            }
        }
    }
    // many same-coloured bishops, and the opposite
    for f in [
        "2K4k/8/8/8/B1B5/1B1B4/B1B5/1B1B4 w - - 0 1",
        "2K4k/8/8/8/B1B5/1B1B4/B1B5/1BB5 w - - 0 1",
        "2K4k/8/8/8/b1B5/1b1B4/B1b5/1B1b4 b - - 0 1",
        "BBK4k/8/8/8/8/8/8/8 w - - 0 1",
        "NNK4k/8/8/8/8/8/8/8 w - - 0 1",
        "NNK4k/8/8/8/8/8/8/8 w - - 100 80",
        "NNK4k/8/8/8/8/8/8/8 w - - 150 90",
        "NK5k/8/8/8/8/8/8/7n w - - 0 1",
    ] {
        if let Ok(r) = RawBoard::from_str(f) {
            add_both(&mut out, r, "F3g");
        }
    }
    out
}

// ------------------------------------------------------------------ F3h

pub fn semilegal_count(b: &Board) -> usize {
    let mut v: Vec<Move> = Vec::new();
    semilegal::gen_all_into(b, &mut v);
    v.len()
}

pub const KNOWN_218: [&str; 2] = [
    "R6R/3Q4/1Q4Q1/4Q3/2Q4Q/Q4Q2/pp1Q4/kBNN1KB1 w - - 0 1",
    "3Q4/1Q4Q1/4Q3/2Q4R/Q4Q2/3Q4/1Q4Rp/1K1BBNNk w - - 0 1",
];

/// Maximal-mobility positions: hill climbing on the semilegal move count
pub fn f3h(rng: &mut Rng, full: bool) -> Vec<Pos> {
    let mut out = Vec::new();
    for f in KNOWN_218 {
        let r = RawBoard::from_str(f).unwrap();
        add_both(&mut out, r, "F3h");
    }
    let runs = if full { 24 } else { 6 };
    let steps = if full { 20000 } else { 3000 };
    for run in 0..runs {
        // start: kings plus a handful of queens
        let mut cur: Option<(Cells, usize)> = None;
        for _ in 0..200 {
            let mut cells: Cells = [0; 64];
            let wk = rng.usize(64);
            let mut bk = rng.usize(64);
            while bk == wk || kings_adjacent(wk, bk) {
                bk = rng.usize(64);
            }
            cells[wk] = WK;
            cells[bk] = BK;
            for _ in 0..(6 + rng.usize(9)) {
                let s = rng.usize(64);
                if cells[s] == 0 {
                    cells[s] = WQ;
                }
            }
            if let Ok(b) = Board::try_from(cells_to_raw(&cells, Color::White, 0, None, 0, 1)) {
                cur = Some((cells, semilegal_count(&b)));
                break;
            }
        }
        let (mut cells, mut best) = match cur {
            Some(x) => x,
            None => continue,
        };
        for _ in 0..steps {
            let mut c2 = cells;
            match rng.usize(5) {
                0 => {
                    // move a white man
                    let from = rng.usize(64);
                    let to = rng.usize(64);
                    if c2[from] == 0 || !is_white(c2[from]) || c2[to] != 0 {
                        continue;
                    }
                    if kind_of(c2[from]) == 1 && (to < 8 || to >= 56) {
                        continue;
                    }
                    c2[to] = c2[from];
                    c2[from] = 0;
                }
                1 => {
                    // add a white piece
                    let s = rng.usize(64);
                    if c2[s] != 0 || count_color(&c2, true) >= 16 {
                        continue;
                    }
                    let k = *rng.pick(&[WQ, WQ, WQ, WR, WB, WN, WP]);
                    if k == WP && (s < 8 || s >= 56) {
                        continue;
                    }
                    c2[s] = k;
                }
                2 => {
                    // change the kind of a white non-king piece
                    let s = rng.usize(64);
                    if c2[s] == 0 || !is_white(c2[s]) || c2[s] == WK {
                        continue;
                    }
                    let k = *rng.pick(&[WQ, WR, WB, WN]);
                    c2[s] = k;
                }
                3 => {
                    // move the black king or add / move a black blocker pawn
                    let from = rng.usize(64);
                    let to = rng.usize(64);
                    if c2[from] == 0 || is_white(c2[from]) || c2[to] != 0 {
                        continue;
                    }
                    if kind_of(c2[from]) == 1 && (to < 8 || to >= 56) {
                        continue;
                    }
                    c2[to] = c2[from];
                    c2[from] = 0;
                }
                _ => {
                    // add a black man (something to capture, or a shield for the king)
                    let s = rng.usize(64);
                    if c2[s] != 0 || count_color(&c2, false) >= 16 {
                        continue;
                    }
                    let k = *rng.pick(&[BP, BP, BN, BB]);
                    if k == BP && (s < 8 || s >= 56) {
                        continue;
                    }
                    c2[s] = k;
                }
            }
            if let Ok(b) = Board::try_from(cells_to_raw(&c2, Color::White, 0, None, 0, 1)) {
                let n = semilegal_count(&b);
                if n >= best {
                    cells = c2;
                    best = n;
                }
            }
        }
        let raw = cells_to_raw(&cells, Color::White, 0, None, (run * 7) as u16, 1);
        add_both(&mut out, raw, "F3h");
    }
    out
}

// ------------------------------------------------------------------ all of F3

pub struct F3All {
    pub pos: Vec<Pos>,
    pub dropped_fens: Vec<String>,
}

/// Group of a legal move for the single-group family: which part of the generator produces it.
pub fn move_group(b: &Board, m: &Move) -> &'static str {
    use owlchess::types::Piece;
    let cap = b.get(m.dst()).is_occupied();
    match m.kind() {
        MoveKind::Enpassant => "ep",
        MoveKind::PawnDouble => "pawn-double",
        MoveKind::CastlingKingside | MoveKind::CastlingQueenside => "castle",
        MoveKind::PromoteKnight | MoveKind::PromoteBishop | MoveKind::PromoteRook | MoveKind::PromoteQueen => {
            if cap {
                "promo-capture"
            } else {
                "promo-push"
            }
        }
        MoveKind::Null => "null",
        MoveKind::Simple => match m.src_cell().piece() {
            Some(Piece::Pawn) => {
                if cap {
                    "pawn-capture"
                } else {
                    "pawn-push"
                }
            }
            Some(Piece::King) => "king",
            Some(Piece::Knight) => "knight",
            Some(Piece::Bishop) => "bishop",
            Some(Piece::Rook) => "rook",
            Some(Piece::Queen) => "queen",
            None => "null",
        },
    }
}

/// F3i: positions all of whose legal moves come from ONE generator group (only en passant, only
/// push-promotions, only double steps, ...). Found by seeded random search over sparse positions.
/// A generator group dropped from `has_legal_moves`, a SAN check mark or an outcome depends on them.
pub fn f3i(rng: &mut Rng, per_group: usize, tries: usize) -> Vec<Pos> {
    use std::collections::HashMap;
    let mut have: HashMap<&'static str, usize> = HashMap::new();
    let mut out = Vec::new();
    let men: [u8; 16] = [WP, WP, WP, BP, BP, BP, WN, BN, WB, BB, WR, BR, WQ, BQ, WP, BP];
    for _ in 0..tries {
        let mut cells: Cells = [0; 64];
        // kings: the side to move's king often in a corner / on an edge so that it is easily boxed in
        let white_to_move = rng.chance(1, 2);
        let k1 = if rng.chance(1, 2) {
            *rng.pick(&[0usize, 7, 56, 63, 1, 6, 8, 15, 48, 55, 57, 62])
        } else {
            rng.below(64) as usize
        };
        let mut k2 = rng.below(64) as usize;
        let mut guard = 0;
        while (k2 == k1 || kings_adjacent(k1, k2)) && guard < 50 {
            k2 = rng.below(64) as usize;
            guard += 1;
        }
        if k2 == k1 || kings_adjacent(k1, k2) {
            continue;
        }
        cells[k1] = if white_to_move { WK } else { BK };
        cells[k2] = if white_to_move { BK } else { WK };
        let n = 1 + rng.below(6) as usize;
        for _ in 0..n {
            let m = *rng.pick(&men);
            // near the mover's king half of the time
            let sq = if rng.chance(1, 2) {
                let r = (k1 / 8) as i32 + rng.below(5) as i32 - 2;
                let c = (k1 % 8) as i32 + rng.below(5) as i32 - 2;
                if !on_board(r, c) {
                    continue;
                }
                (r * 8 + c) as usize
            } else {
                rng.below(64) as usize
            };
            if cells[sq] != 0 {
                continue;
            }
            if (m == WP || m == BP) && (sq / 8 == 0 || sq / 8 == 7) {
                continue;
            }
            cells[sq] = m;
        }
        let side = if white_to_move { Color::White } else { Color::Black };
        let eps = ep_candidates(&cells, side);
        let ep = if !eps.is_empty() && rng.chance(1, 2) {
            Some(*rng.pick(&eps))
        } else {
            None
        };
        let raw = cells_to_raw(&cells, side, 0, ep, 0, 1);
        let p = match pos_of(raw, "F3i") {
            Some(p) => p,
            None => continue,
        };
        let ms = true_legal_moves(&p.board);
        if ms.is_empty() {
            continue;
        }
        let g = move_group(&p.board, &ms[0]);
        if ms.iter().any(|m| move_group(&p.board, m) != g) {
            continue;
        }
        let cnt = have.entry(g).or_insert(0);
        if *cnt >= per_group {
            continue;
        }
        *cnt += 1;
        out.push(p);
    }
    // templates for the two groups random search practically never isolates
    for t in 0..(tries / 2) {
        let mut cells: Cells = [0; 64];
        let want_double = t % 2 == 0;
        let mut pawn_checks = false;
        if want_double {
            // White: king on rank 4 checked along the rank by a rook, a pawn on rank 2 between them
            let kf = rng.below(8) as usize;
            let rf = rng.below(8) as usize;
            if kf.abs_diff(rf) < 2 {
                continue;
            }
            let (lo, hi) = if kf < rf { (kf, rf) } else { (rf, kf) };
            let pf = lo + 1 + rng.below((hi - lo - 1) as u64) as usize;
            cells[4 * 8 + kf] = WK;
            cells[4 * 8 + rf] = if rng.chance(1, 2) { BR } else { BQ };
            cells[6 * 8 + pf] = WP;
        } else {
            // White pawn on rank 5 next to a black pawn that has just made a double step
            let f = rng.below(8) as usize;
            let g = if f == 0 { 1 } else if f == 7 { 6 } else if rng.chance(1, 2) { f - 1 } else { f + 1 };
            cells[3 * 8 + f] = WP;
            cells[3 * 8 + g] = BP;
            // half of the time the pawn that has just made the double step is the one giving check (the king stands
            // diagonally behind it), so that capturing it en passant is the evasion
            pawn_checks = rng.chance(1, 2);
            let k = if pawn_checks {
                let kf = if g == 0 { 1 } else if g == 7 { 6 } else if rng.chance(1, 2) { g - 1 } else { g + 1 };
                4 * 8 + kf
            } else {
                rng.below(64) as usize
            };
            if cells[k] != 0 {
                continue;
            }
            cells[k] = WK;
        }
        let bk = rng.below(64) as usize;
        if cells[bk] != 0 {
            continue;
        }
        cells[bk] = BK;
        let n = if pawn_checks { 3 + rng.below(6) as usize } else { 2 + rng.below(6) as usize };
        let wk = (0..64).find(|&i| cells[i] == WK).unwrap_or(0);
        for _ in 0..n {
            let m = *rng.pick(&[BN, BB, BR, BQ, BP, BP, WP, BQ]);
            // boxing the king in needs the men close to it
            let sq = if pawn_checks && rng.chance(3, 4) {
                let r = (wk / 8) as i32 + rng.below(5) as i32 - 2;
                let c = (wk % 8) as i32 + rng.below(7) as i32 - 3;
                if !on_board(r, c) {
                    continue;
                }
                (r * 8 + c) as usize
            } else {
                rng.below(64) as usize
            };
            if cells[sq] != 0 || ((m == WP || m == BP) && (sq / 8 == 0 || sq / 8 == 7)) {
                continue;
            }
            cells[sq] = m;
        }
        let ep = if want_double {
            None
        } else {
            ep_candidates(&cells, Color::White).first().copied()
        };
        if !want_double && ep.is_none() {
            continue;
        }
        let raw = cells_to_raw(&cells, Color::White, 0, ep, 0, 1);
        // both colours: the position and its colour-swapped vertical mirror
        for raw in [raw, mirror_raw_v(&raw)] {
            let p = match pos_of(raw, "F3i") {
                Some(p) => p,
                None => continue,
            };
            let ms = true_legal_moves(&p.board);
            if ms.is_empty() {
                continue;
            }
            let g = move_group(&p.board, &ms[0]);
            if (g != "pawn-double" && g != "ep") || ms.iter().any(|m| move_group(&p.board, m) != g) {
                continue;
            }
            let g = if g == "ep" && pawn_checks { "ep-of-the-checking-pawn" } else { g };
            let cnt = have.entry(g).or_insert(0);
            if *cnt >= per_group {
                continue;
            }
            *cnt += 1;
            out.push(p);
        }
    }
    // in check with a promotion push as the only answer (the pawn steps onto the last rank between the checker and the
    // king): what random search does not isolate. Four corners' worth by mirroring, both colours.
    for fen in [
        "r6K/6P1/5n2/8/8/8/8/k7 w - - 0 1",
        "q6K/6P1/5n2/8/8/8/8/k7 w - - 0 1",
        "r6K/6P1/8/8/8/3b4/8/k7 w - - 0 1",
        "2r4K/6P1/5n2/8/8/8/8/k7 w - - 0 1",
    ] {
        if let Ok(r) = RawBoard::from_str(fen) {
            for r1 in [r, crate::ops::mirror_raw_h(&r)] {
                for r2 in [r1, mirror_raw_v(&r1)] {
                    if let Some(p) = pos_of(r2, "F3i") {
                        let ms = true_legal_moves(&p.board);
                        if !ms.is_empty() && ms.iter().all(|m| move_group(&p.board, m) == "promo-push") {
                            out.push(p);
                        }
                    }
                }
            }
        }
    }
    out
}

/// Predecessors of single-group positions in which the side to move is in check: a position and a
/// checking move of it whose successor is the given position (so that the SAN check / mate mark
/// of that move depends on exactly one generator group).
pub fn f3i_predecessors(ps: &[Pos]) -> Vec<(Pos, Move)> {
    let mut out = Vec::new();
    for q in ps {
        if !q.board.is_check() {
            continue;
        }
        let qcells = raw_to_cells(q.board.raw());
        let mover_white = q.board.side() == Color::Black;
        for t in 0..64usize {
            let m = qcells[t];
            if m == 0 || is_white(m) != mover_white || kind_of(m) == 0 || m == WK || m == BK {
                continue;
            }
            if m == WP || m == BP {
                continue;
            }
            let mut found = false;
            for u in 0..64usize {
                if qcells[u] != 0 || found {
                    continue;
                }
                let mut cells = qcells;
                cells[t] = 0;
                cells[u] = m;
                let side = if mover_white { Color::White } else { Color::Black };
                let raw = cells_to_raw(&cells, side, 0, None, 0, 1);
                let p = match pos_of(raw, "F3i-pred") {
                    Some(p) => p,
                    None => continue,
                };
                for mv in true_legal_moves(&p.board) {
                    if mv.src().index() == u && mv.dst().index() == t && mv.kind() == MoveKind::Simple {
                        if let Some(nb) = safe_make(&p.board, mv) {
                            if nb.raw().cells == q.board.raw().cells {
                                out.push((p.clone(), mv));
                                found = true;
                            }
                        }
                        break;
                    }
                }
            }
        }
    }
    out
}

/// Predecessors by a double pawn step: for a position carrying an en-passant mark, the position before that double step
/// and the step itself (when it is legal there and leads to exactly the given squares). With the single-group positions
/// whose only legal replies are en-passant captures this gives games in which a double step gives check and the
/// en-passant capture is the only answer — the check / mate mark of the double step hangs on the en-passant generator.
pub fn ep_predecessors(ps: &[Pos]) -> Vec<(Pos, Move)> {
    let mut out = Vec::new();
    for q in ps {
        let r = q.board.raw();
        let idx = match r.ep_source {
            Some(s) => s.index(),
            None => continue,
        };
        let mover_white = r.side == Color::Black;
        let (from, mid) = if mover_white { (idx + 16, idx + 8) } else { (idx.wrapping_sub(16), idx.wrapping_sub(8)) };
        if from >= 64 || mid >= 64 {
            continue;
        }
        let mut cells = raw_to_cells(r);
        if cells[from] != 0 || cells[mid] != 0 || (cells[idx] != WP && cells[idx] != BP) {
            continue;
        }
        cells[from] = cells[idx];
        cells[idx] = 0;
        let side = if mover_white { Color::White } else { Color::Black };
        let raw = cells_to_raw(&cells, side, r.castling.index() as u8, None, 0, 1);
        let p = match pos_of(raw, "F3i-pred-double") {
            Some(p) => p,
            None => continue,
        };
        for mv in true_legal_moves(&p.board) {
            if mv.kind() == MoveKind::PawnDouble && mv.src().index() == from {
                if let Some(nb) = safe_make(&p.board, mv) {
                    if nb.raw().cells == r.cells {
                        out.push((p.clone(), mv));
                    }
                }
                break;
            }
        }
    }
    out
}

pub fn f3_all(rng: &mut Rng, full: bool) -> F3All {
    let mut pos = Vec::new();
    let mut dropped = Vec::new();
    pos.extend(f3a(full));
    pos.extend(f3b(full));
    let (c, bad) = f3c();
    pos.extend(c);
    dropped.extend(bad);
    pos.extend(f3d(full));
    pos.extend(f3e(full));
    let (f, bad) = f3f();
    pos.extend(f);
    dropped.extend(bad);
    pos.extend(f3g(rng, full));
    pos.extend(f3h(rng, full));
    pos.extend(f3_allpinned());
    pos.extend(f3_crosspin());
    pos.extend(f3_manycheckers());
    pos.extend(f3a_discover());
    pos.extend(f3i(rng, if full { 40 } else { 8 }, if full { 2_000_000 } else { 300_000 }));
    F3All {
        pos,
        dropped_fens: dropped,
    }
}

// ------------------------------------------------------------------ all movable men pinned

/// A cornered king (every corner, both colours) whose neighbours are own men pinned each along a DIFFERENT line (file,
/// rank, diagonal) — two or three pins at once, of different kinds — and otherwise squares covered by a knight: the
/// pinned men are of types that cannot move along their pin, so the position is a stalemate (or, with a knight check
/// added, a mate) exactly when every pin is honoured.
pub fn f3_allpinned() -> Vec<Pos> {
    let mut out = Vec::new();
    // king a1 (index 56); neighbours a2 = 48, b1 = 57, b2 = 49
    let a2_pins: [(usize, u8); 2] = [(sqn("a8"), BR), (sqn("a5"), BQ)];
    let b1_pins: [(usize, u8); 2] = [(sqn("h1"), BR), (sqn("e1"), BQ)];
    let b2_pins: [(usize, u8); 2] = [(sqn("h8"), BB), (sqn("e5"), BQ)];
    for mask in 3u8..8 {
        if mask.count_ones() < 2 {
            continue;
        }
        // `slide`: some of the pinned men are of a type that can still move ALONG its pin (not a stalemate then)
        for (v, slide) in (0..8u8).map(|v| (v, false)).chain((0..8u8).map(|v| (v, true))) {
            let mut c: Cells = [0; 64];
            c[sqn("a1")] = WK;
            let mut covered_by_knight: Vec<usize> = Vec::new();
            if mask & 1 != 0 {
                c[sqn("a2")] = if slide { if v & 1 == 0 { WR } else { WQ } } else if v & 1 == 0 { WN } else { WB };
                let (s, m) = a2_pins[(v as usize >> 1) & 1];
                c[s] = m;
            } else {
                covered_by_knight.push(sqn("a2"));
            }
            if mask & 2 != 0 {
                c[sqn("b1")] = if slide && v & 1 == 1 { if v & 2 == 0 { WR } else { WQ } } else if v & 2 == 0 { WN } else { WB };
                let (s, m) = b1_pins[(v as usize >> 2) & 1];
                c[s] = m;
            } else {
                covered_by_knight.push(sqn("b1"));
            }
            if mask & 4 != 0 {
                c[sqn("b2")] = if slide && v & 2 == 2 { if v & 4 == 0 { WB } else { WQ } } else if v & 4 == 0 { WN } else { WR };
                let (s, m) = b2_pins[(v as usize) & 1];
                c[s] = m;
            } else {
                covered_by_knight.push(sqn("b2"));
            }
            // a knight covering the free neighbour without giving check and off the pin lines: a2 <- b4, b1 <- d2, b2 <- d3
            for sq in &covered_by_knight {
                let k = if *sq == sqn("a2") { sqn("b4") } else if *sq == sqn("b1") { sqn("d2") } else { sqn("d3") };
                if c[k] == 0 {
                    c[k] = BN;
                }
            }
            let bk = sqn("g5");
            if c[bk] != 0 {
                continue;
            }
            c[bk] = BK;
            for check in [false, true] {
                let mut cc = c;
                if check {
                    // a checking knight that nothing can capture (every own man is pinned)
                    if cc[sqn("c2")] != 0 {
                        continue;
                    }
                    cc[sqn("c2")] = BN;
                }
                let raw = cells_to_raw(&cc, Color::White, 0, None, 0, 1);
                for r1 in [raw, crate::ops::mirror_raw_h(&raw)] {
                    for r2 in [r1, mirror_raw_v(&r1)] {
                        if let Some(p) = pos_of(r2, "F3-allpinned") {
                            out.push(p);
                        }
                    }
                }
            }
        }
    }
    out
}

// ------------------------------------------------------------------ cross pins, many checkers, discovered en passant

/// Two own men pinned by two different enemy sliders, where one pinned man can CAPTURE THE OTHER MAN'S PINNER (leaving
/// its own pin line): the capture is pseudo-legal and illegal. Both colours.
pub fn f3_crosspin() -> Vec<Pos> {
    let mut out = Vec::new();
    let kings = [sqn("e1"), sqn("d4"), sqn("a1"), sqn("h5")];
    for &k in &kings {
        for (i, (dr1, dc1)) in DIRS8.iter().enumerate() {
            for (j, (dr2, dc2)) in DIRS8.iter().enumerate() {
                if i == j {
                    continue;
                }
                let r1 = ray(k, *dr1, *dc1);
                let r2 = ray(k, *dr2, *dc2);
                if r1.len() < 2 || r2.len() < 2 {
                    continue;
                }
                for d1 in 0..r1.len().min(3) - 0 {
                    if d1 + 1 >= r1.len() {
                        break;
                    }
                    for d2 in 0..r2.len().min(3) {
                        if d2 + 1 >= r2.len() {
                            break;
                        }
                        let diag1 = *dr1 != 0 && *dc1 != 0;
                        let diag2 = *dr2 != 0 && *dc2 != 0;
                        let mut c: Cells = [0; 64];
                        c[k] = WK;
                        c[r1[d1]] = WQ;
                        c[*r1.last().unwrap()] = if diag1 { BB } else { BR };
                        c[r2[d2]] = WN;
                        let pin2 = r2[d2 + 1];
                        c[pin2] = if diag2 { BB } else { BR };
                        if c.iter().filter(|&&x| x != 0).count() != 5 {
                            continue;
                        }
                        for bk in ["h8", "a8", "h1", "a5", "c7"] {
                            let s = sqn(bk);
                            if c[s] != 0 {
                                continue;
                            }
                            let mut cc = c;
                            cc[s] = BK;
                            let raw = cells_to_raw(&cc, Color::White, 0, None, 0, 1);
                            if let Some(p) = pos_of(raw, "F3-crosspin") {
                                // keep it only if the queen can geometrically capture the second pinner
                                let hits = semilegal::gen_all(&p.board)
                                    .iter()
                                    .any(|m| m.src().index() == r1[d1] && m.dst().index() == pin2);
                                if hits && !p.board.is_check() && out.len() < 240 {
                                    if let Some(q) = pos_of(mirror_raw_v(&raw), "F3-crosspin") {
                                        out.push(q);
                                    }
                                    out.push(p);
                                }
                                break;
                            }
                        }
                    }
                }
            }
        }
    }
    out
}

/// The side to move in check from THREE OR MORE men at once (the gate only forbids an attack on the king of the side
/// that is NOT to move, so these are valid positions although no game reaches them), both colours.
pub fn f3_manycheckers() -> Vec<Pos> {
    let mut out = Vec::new();
    add_fens(
        &mut out,
        &[
            "k3q3/8/8/q7/7q/8/8/4K3 w - - 0 1",
            "k3q3/8/8/q7/7q/3n1n2/8/r3K2r w - - 0 1",
            "k3r3/8/8/b7/7b/3n4/8/4K3 w - - 0 1",
            "4r2k/8/8/8/1b5q/5n2/3p4/r3K2r w - - 0 1",
            "4K3/8/3N1N2/7Q/Q7/8/8/k3R3 b - - 0 1",
            "R3k2R/3P4/5N2/1B5Q/8/8/8/4K3 b - - 0 1",
            "4k3/8/8/8/8/2b1b3/3K4/2q1q3 w - - 0 1",
        ],
        "F3-manycheckers",
    );
    let more: Vec<Pos> = out.iter().filter_map(|p| pos_of(mirror_raw_v(&p.sent), "F3-manycheckers")).collect();
    out.extend(more);
    out
}

/// En-passant captures that give a DISCOVERED check to the enemy king: an own slider behind the captured pawn's square
/// (the line opens when the victim disappears) or behind the capturing pawn's source square. Both colours.
pub fn f3a_discover() -> Vec<Pos> {
    let mut out = Vec::new();
    add_fens(
        &mut out,
        &[
            "6k1/8/8/3pP3/8/1B6/8/K7 w - d6 0 1",
            "8/8/8/R2pP2k/8/8/8/K7 w - d6 0 1",
            "k7/7b/8/8/3pP3/8/8/1K6 b - e3 0 1",
            "3k4/8/8/3pP3/8/8/8/K2R4 w - d6 0 1",
            "4k3/8/8/3pP3/8/8/8/K3R3 w - d6 0 1",
            "7k/8/8/4Pp2/3B4/8/8/K7 w - f6 0 1",
            "K7/8/8/8/3pP3/8/8/r3k2 b - e3 0 1",
            "2k5/8/8/2pP4/8/8/8/K1Q5 w - c6 0 1",
        ],
        "F3a",
    );
    let more: Vec<Pos> = out.iter().filter_map(|p| pos_of(mirror_raw_v(&p.sent), "F3a")).collect();
    out.extend(more);
    out
}

// ------------------------------------------------------------------ forced outcome vs. draw by counter / material

/// Positions with a QUIET move (no capture, no pawn move) after which the opponent has no legal move — mate or
/// stalemate — while a draw rule applies to the resulting position as well: the half-move clock reaches 150 / 100 with
/// that very move (start clocks 149 / 99), or the material is insufficient (K+N or K+B against a bare king,
/// stalemating). The forced outcome must win over the draw. Seeded search over sparse positions, both colours.
pub fn quiet_finishers(rng: &mut Rng, tries: usize, per_class: usize) -> Vec<(Pos, Move, &'static str)> {
    use std::collections::HashMap;
    let mut have: HashMap<&'static str, usize> = HashMap::new();
    let mut out: Vec<(Pos, Move, &'static str)> = Vec::new();
    let sets: [&[u8]; 8] = [&[WQ], &[WR], &[WR, WR], &[WQ, WB], &[WN], &[WB], &[WR, BN], &[WQ, BP]];
    for t in 0..tries {
        let minor = t % 3 == 0;
        let set: &[u8] = if minor { sets[4 + (t / 3) % 2] } else { sets[rng.usize(sets.len())] };
        let mut cells: Cells = [0; 64];
        // the king to be finished off stands in a corner or on an edge most of the time
        let bk = if rng.chance(3, 4) {
            *rng.pick(&[0usize, 7, 56, 63, 1, 6, 8, 15, 48, 55, 57, 62, 3, 4, 24, 31, 59, 60])
        } else {
            rng.usize(64)
        };
        let wk = {
            // close to it
            let r = (bk / 8) as i32 + rng.below(5) as i32 - 2;
            let c = (bk % 8) as i32 + rng.below(5) as i32 - 2;
            if !on_board(r, c) {
                continue;
            }
            (r * 8 + c) as usize
        };
        if wk == bk || kings_adjacent(wk, bk) {
            continue;
        }
        cells[bk] = BK;
        cells[wk] = WK;
        let mut okp = true;
        for &m in set {
            let sq = if minor || rng.chance(1, 2) {
                let r = (bk / 8) as i32 + rng.below(7) as i32 - 3;
                let c = (bk % 8) as i32 + rng.below(7) as i32 - 3;
                if !on_board(r, c) {
                    okp = false;
                    break;
                }
                (r * 8 + c) as usize
            } else {
                rng.usize(64)
            };
            if cells[sq] != 0 || ((m == WP || m == BP) && (sq / 8 == 0 || sq / 8 == 7)) {
                okp = false;
                break;
            }
            cells[sq] = m;
        }
        if !okp {
            continue;
        }
        let mc: u16 = if minor { *rng.pick(&[0u16, 17, 99, 149]) } else { *rng.pick(&[149u16, 99, 149, 98, 148]) };
        let raw = cells_to_raw(&cells, Color::White, 0, None, mc, 1 + rng.below(200) as u16);
        for raw in [raw, mirror_raw_v(&raw)] {
            let p = match pos_of(raw, "F-finish") {
                Some(p) => p,
                None => continue,
            };
            for m in true_legal_moves(&p.board) {
                if m.kind() != MoveKind::Simple || p.board.get(m.dst()).is_occupied() {
                    continue;
                }
                let pc = m.src_cell().index() as u8;
                if pc == WP || pc == BP {
                    continue;
                }
                let nb = match safe_make(&p.board, m) {
                    Some(b) => b,
                    None => continue,
                };
                if !true_legal_moves(&nb).is_empty() {
                    continue;
                }
                let mate = nb.is_check();
                let class: &'static str = match (minor, mate, mc) {
                    (true, false, _) => "stalemate_with_insufficient_material",
                    (true, true, _) => continue,
                    (false, true, 149) => "mate_at_clock_150",
                    (false, true, 99) => "mate_at_clock_100",
                    (false, false, 149) => "stalemate_at_clock_150",
                    (false, false, 99) => "stalemate_at_clock_100",
                    (false, true, _) => "mate_below_the_limits",
                    (false, false, _) => "stalemate_below_the_limits",
                };
                let cnt = have.entry(class).or_insert(0);
                if *cnt >= per_class {
                    continue;
                }
                *cnt += 1;
                out.push((p.clone(), m, class));
            }
        }
    }
    out
}

// ------------------------------------------------------------------ F4

/// Raw boards for the validation gate; not necessarily valid. Returns the raw board and a tag.
pub fn f4(rng: &mut Rng) -> (RawBoard, &'static str) {
    match rng.weighted(&[40, 25, 20, 15]) {
        0 => {
            let base = f1(rng);
            let mut cells = raw_to_cells(&base.sent);
            let mut raw = base.sent;
            let mut tag = "F4one";
            let n = if rng.chance(1, 3) {
                tag = "F4two";
                2
            } else {
                1
            };
            for _ in 0..n {
                apply_defect(rng, &mut cells, &mut raw);
            }
            let r2 = cells_to_raw(
                &cells,
                raw.side,
                raw.castling.index() as u8,
                raw.ep_source.map(|c| c.index()),
                raw.move_counter,
                raw.move_number,
            );
            (r2, tag)
        }
        1 => {
            // fully random sparse assignment
            let mut cells: Cells = [0; 64];
            let men = 1 + rng.usize(8);
            for _ in 0..men {
                let s = rng.usize(64);
                cells[s] = 1 + rng.usize(12) as u8;
            }
            if rng.chance(3, 4) {
                cells[rng.usize(64)] = WK;
                cells[rng.usize(64)] = BK;
            }
            let side = if rng.chance(1, 2) {
                Color::White
            } else {
                Color::Black
            };
            let ep = if rng.chance(1, 3) {
                Some(rng.usize(64))
            } else {
                None
            };
            (
                cells_to_raw(
                    &cells,
                    side,
                    rng.usize(16) as u8,
                    ep,
                    draw_mc(rng),
                    draw_mn(rng),
                ),
                "F4random",
            )
        }
        2 => {
            let p = f1(rng);
            (p.sent, "F4valid")
        }
        _ => {
            // fully random dense assignment (mostly rejected for several reasons at once)
            let mut cells: Cells = [0; 64];
            let fill = 2 + rng.usize(40);
            for _ in 0..fill {
                let s = rng.usize(64);
                cells[s] = 1 + rng.usize(12) as u8;
            }
            let side = if rng.chance(1, 2) {
                Color::White
            } else {
                Color::Black
            };
            let ep = if rng.chance(1, 2) {
                Some(rng.usize(64))
            } else {
                None
            };
            (
                cells_to_raw(&cells, side, rng.usize(16) as u8, ep, draw_mc(rng), draw_mn(rng)),
                "F4dense",
            )
        }
    }
}

fn apply_defect(rng: &mut Rng, cells: &mut Cells, raw: &mut RawBoard) {
    let empty_sq = |rng: &mut Rng, cells: &Cells, lo: usize, hi: usize| -> Option<usize> {
        for _ in 0..100 {
            let s = lo + rng.usize(hi - lo);
            if cells[s] == 0 {
                return Some(s);
            }
        }
        None
    };
    match rng.usize(14) {
        0 => {
            if let Some(s) = cells.iter().position(|&c| c == WK) {
                cells[s] = 0;
            }
        }
        1 => {
            if let Some(s) = cells.iter().position(|&c| c == BK) {
                cells[s] = 0;
            }
        }
        2 => {
            if let Some(s) = empty_sq(rng, cells, 0, 64) {
                cells[s] = WK;
            }
        }
        3 => {
            if let Some(s) = empty_sq(rng, cells, 0, 64) {
                cells[s] = BK;
            }
        }
        4 | 5 => {
            // 17 men of one colour
            let white = rng.chance(1, 2);
            let mut guard = 0;
            while count_color(cells, white) < 17 && guard < 200 {
                guard += 1;
                if let Some(s) = empty_sq(rng, cells, 0, 64) {
                    cells[s] = if white { WN } else { BN };
                }
            }
        }
        6 => {
            let s = if rng.chance(1, 2) {
                rng.usize(8)
            } else {
                56 + rng.usize(8)
            };
            if kind_of(cells[s]) != 2 {
                cells[s] = WP;
            }
        }
        7 => {
            let s = if rng.chance(1, 2) {
                rng.usize(8)
            } else {
                56 + rng.usize(8)
            };
            if kind_of(cells[s]) != 2 {
                cells[s] = BP;
            }
        }
        8 => {
            // ep mark on a wrong rank for the side
            let good = if raw.side == Color::White { 3 } else { 4 };
            let mut row = rng.usize(8);
            if row == good {
                row = 7 - good;
            }
            raw.ep_source = Some(Coord::from_index(row * 8 + rng.usize(8)));
        }
        9 => {
            // ep mark on the right rank without a pawn there
            let row = if raw.side == Color::White { 3 } else { 4 };
            raw.ep_source = Some(Coord::from_index(row * 8 + rng.usize(8)));
        }
        10 => {
            // ep mark with pawn but blocked square behind
            let (row, victim, b1) = if raw.side == Color::White {
                (3usize, BP, 2usize)
            } else {
                (4usize, WP, 5usize)
            };
            let f = rng.usize(8);
            if kind_of(cells[row * 8 + f]) != 2 && kind_of(cells[b1 * 8 + f]) != 2 {
                cells[row * 8 + f] = victim;
                cells[b1 * 8 + f] = if rng.chance(1, 2) { WN } else { BN };
                raw.ep_source = Some(Coord::from_index(row * 8 + f));
            }
        }
        11 => {
            // rights without king / rook at home
            raw.castling = CastlingRights::from_index(1 + rng.usize(15));
        }
        12 => {
            // opponent king attacked: flip the side when the side to move is in check,
            // otherwise drop a rook of the side to move next to a clear line
            let mover_white = raw.side == Color::White;
            if let Some(k) = cells
                .iter()
                .position(|&c| c == if mover_white { BK } else { WK })
            {
                let (dr, dc) = *rng.pick(&DIRS8);
                let r = ray(k, dr, dc);
                if let Some(&s) = r.first() {
                    if kind_of(cells[s]) != 2 {
                        cells[s] = if mover_white { WQ } else { BQ };
                    }
                }
            }
        }
        _ => {
            raw.side = raw.side.inv();
        }
    }
}

/// Raw boards for FEN formatting whose ep mark (if any) sits on the rank consistent with the side
pub fn f4_fenlike(rng: &mut Rng) -> (RawBoard, &'static str) {
    loop {
        let (mut r, tag) = f4(rng);
        if let Some(e) = r.ep_source {
            let good = if r.side == Color::White { 3 } else { 4 };
            if e.index() / 8 != good {
                if rng.chance(1, 2) {
                    r.ep_source = Some(Coord::from_index(good * 8 + e.index() % 8));
                } else {
                    continue;
                }
            }
        }
        return (r, tag);
    }
}

// ------------------------------------------------------------------ F6

/// A random well-formed move; `color`: restrict to that side's cells when given
pub fn random_wf_move(rng: &mut Rng, color: Option<Color>) -> Mv4 {
    loop {
        let k = match rng.weighted(&[60, 4, 4, 8, 8, 4, 4, 4, 4]) {
            0 => 1u8,
            i => (i + 1) as u8,
        };
        let base = match color {
            Some(Color::White) => 1,
            Some(Color::Black) => 7,
            None => {
                if rng.chance(1, 2) {
                    1
                } else {
                    7
                }
            }
        };
        let c = if k == 1 {
            base + rng.usize(6) as u8
        } else if k == 2 || k == 3 {
            base + 1
        } else {
            base
        };
        // draw src/dst until well-formed (cheap for all kinds but castling)
        for _ in 0..400 {
            let s = rng.usize(64) as u8;
            let d = rng.usize(64) as u8;
            if codec::mv4_new((k, c, s, d)).is_ok() {
                return (k, c, s, d);
            }
        }
        if k == 2 || k == 3 {
            let s = if base == 1 { 60 } else { 4 };
            let d = if k == 2 { s + 2 } else { s - 2 };
            return (k, c, s, d);
        }
    }
}

/// A random tuple, usually not well-formed
pub fn random_tuple(rng: &mut Rng) -> Mv4 {
    (
        rng.usize(10) as u8,
        rng.usize(13) as u8,
        rng.usize(64) as u8,
        rng.usize(64) as u8,
    )
}
