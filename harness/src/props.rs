//! Property → case lines (`gen`), and the self-test

use crate::chaingen::{self, Flavor};
use crate::codec::{self, mv4_fmt, mv_fmt, raw_fmt, str_enc, Mv4};
use crate::posgen::{self, true_legal_moves, Pos};
use crate::rng::Rng;
use crate::stats::Stats;
use crate::strgen;
use owlchess::movegen::semilegal;
use owlchess::moves::{Move, MoveKind};
use owlchess::types::{Cell, Color, Coord, Piece};
use owlchess::{Board, RawBoard};
use std::collections::{BTreeMap, BTreeSet};
use std::fs::File;
use std::io::{BufWriter, Write};
use std::panic::{catch_unwind, AssertUnwindSafe};
use std::str::FromStr;
use std::time::Instant;

pub struct Ctx {
    rng: Rng,
    w: BufWriter<File>,
    st: Stats,
    thorough: bool,
    scale: f64,
    pool: posgen::PosPool,
}

impl Ctx {
    fn case(&mut self, key: &str, line: &str) {
        self.st.op(key);
        self.st.total += 1;
        self.st.bytes += line.len() as u64 + 1;
        let _ = self.w.write_all(line.as_bytes());
        let _ = self.w.write_all(b"\n");
    }

    /// Volume: `quick` in the quick tier, `quick * mult` in the thorough tier, times `--scale`
    fn vol(&self, quick: usize, mult: f64) -> usize {
        let m = if self.thorough { mult } else { 1.0 };
        ((quick as f64) * m * self.scale).round().max(1.0) as usize
    }

    fn pos(&mut self, p: &Pos) {
        self.st.pos(&p.board, p.fam);
    }

    fn mv_stat(&mut self, m: &Move) {
        self.st.mv_kind(m.kind() as u8);
    }

    fn str_case(&mut self, key: &str, prefix: &str, s: &str, suffix: &str) {
        self.st.string(s);
        let line = format!("{}{}{}", prefix, str_enc(s), suffix);
        self.case(key, &line);
    }
}

fn semis(b: &Board) -> Vec<Move> {
    let mut v: Vec<Move> = Vec::new();
    semilegal::gen_all_into(b, &mut v);
    v
}

fn san_of(b: &Board, m: Move) -> Option<String> {
    match catch_unwind(AssertUnwindSafe(|| m.san(b).map(|s| s.to_string()))) {
        Ok(Ok(s)) => Some(s),
        _ => None,
    }
}

/// A well-formed move of the side to move that is usually *not* semilegal: a semilegal
/// move with the moving man replaced by another kind, or a random well-formed one.
fn near_miss_move(rng: &mut Rng, b: &Board, sm: &[Move]) -> Mv4 {
    if !sm.is_empty() && rng.chance(1, 3) {
        let m = rng.pick(sm);
        let base = if b.side() == Color::White { 1 } else { 7 };
        for _ in 0..8 {
            let c = base + rng.usize(6) as u8;
            let t = (
                m.kind() as u8,
                c,
                m.src().index() as u8,
                m.dst().index() as u8,
            );
            if c as usize != m.src_cell().index() && codec::mv4_new(t).is_ok() {
                return t;
            }
        }
    }
    let col = if rng.chance(4, 5) { Some(b.side()) } else { None };
    posgen::random_wf_move(rng, col)
}

fn force_counters(rng: &mut Rng, p: &Pos) -> Option<Pos> {
    let mut r = p.sent;
    match rng.usize(4) {
        0 => r.move_counter = 65535,
        1 => r.move_number = 65535,
        2 => {
            r.move_counter = 65535;
            r.move_number = 65535;
        }
        _ => {
            r.move_counter = 65534;
            r.move_number = 65534;
        }
    }
    posgen::pos_of(r, "counter-limit")
}

fn start_pos(rng: &mut Rng, pool: &mut posgen::PosPool) -> Pos {
    if rng.chance(2, 5) {
        Pos {
            sent: RawBoard::initial(),
            board: Board::initial(),
            fam: "initial",
        }
    } else {
        let p = pool.draw(rng);
        // clocks near the limits make most pushes panic in the debug profile: keep them rare
        if p.board.raw().move_counter >= 65000 || p.board.raw().move_number >= 65000 {
            if rng.chance(4, 5) {
                let mut r = p.sent;
                r.move_counter = posgen::draw_mc(rng) % 200;
                r.move_number = 1 + posgen::draw_mn(rng) % 300;
                if let Some(q) = posgen::pos_of(r, p.fam) {
                    return q;
                }
            }
        }
        p
    }
}

fn chains(c: &mut Ctx, n: usize, flavor: Flavor) {
    let max_steps = if c.thorough { 300 } else { 60 };
    for _ in 0..n {
        let p = start_pos(&mut c.rng, &mut c.pool);
        c.pos(&p);
        let s = chaingen::gen_script(&mut c.rng, &p, flavor, max_steps);
        c.st.chain(&s.steps, s.final_len, &s.obs);
        c.case("chain", &s.line);
    }
}

// ------------------------------------------------------------------ object prefixes

/// Positions rich in the moves whose make / unmake code is special (en passant, promotions with and without capture —
/// also of a cornered rook whose side still has the right —, castlings, double steps), both colours, plus a few from the
/// general mix. Used for the `restored` / `reached` object prefixes.
fn object_positions(c: &mut Ctx, n_mix: usize) -> Vec<Pos> {
    let mut ps: Vec<Pos> = Vec::new();
    for fen in [
        "r3k2r/1P4P1/8/8/8/8/1p4p1/R3K2R w KQkq - 0 1",
        "r3k2r/1P4P1/8/8/8/8/1p4p1/R3K2R b KQkq - 0 1",
        "rn2k1nr/1P4P1/8/3pP3/3Pp3/8/1p4p1/RN2K1NR w KQkq d6 0 1",
        "rn2k1nr/1P4P1/8/3pP3/3Pp3/8/1p4p1/RN2K1NR b KQkq d3 0 1",
        "nr5k/1P6/8/8/8/8/8/1K6 w - - 0 1",
        "4n3/1k1P4/8/8/8/8/6PP/4r2K w - - 0 1",
        "8/k1P5/2K5/8/8/8/8/8 w - - 0 1",
        "7k/P7/8/8/8/8/8/K7 w - - 0 1",
        "Q7/8/8/8/8/8/5k2/7K w - - 0 1",
        "q6k/8/8/8/8/8/8/K7 b - - 0 1",
        "4k3/8/8/3pP3/2K5/8/8/8 w - d6 0 1",
        "8/8/8/K2pP2r/2P5/8/8/7k w - d6 0 1",
        "7k/8/6b1/8/8/8/R1n5/3K4 w - - 0 1",
        "4k3/8/8/8/8/8/8/4K2R w K - 0 1",
        "r3k3/8/8/8/8/8/8/R3K3 b Qq - 0 1",
        "r3k2r/8/8/8/8/8/8/R3K2R w KQkq - 0 1",
        "4k3/8/8/8/8/8/q7/R3K3 w Q - 0 1",
        "4k3/8/8/8/8/8/7q/4K2R w K - 0 1",
        "r3k3/Q7/8/8/8/8/8/4K3 b q - 0 1",
        "4k2r/7Q/8/8/8/8/8/4K3 b k - 0 1",
        "4k3/8/8/8/8/8/r6r/R3K2R w KQ - 0 1",
        "r3k2r/R6R/8/8/8/8/8/4K3 b kq - 0 1",
    ] {
        if let Ok(b) = owlchess::Board::from_fen(fen) {
            ps.push(Pos { sent: *b.raw(), board: b, fam: "objects" });
        }
    }
    ps.extend(posgen::f3a(false).into_iter().step_by(11));
    ps.extend(posgen::f3d(false).into_iter().step_by(3));
    ps.extend(posgen::f3e(false).into_iter().step_by(3));
    ps.extend(posgen::f3_wrap());
    ps.extend(posgen::mix_f1_f2(&mut c.rng, n_mix));
    ps
}

/// Step sequences for the `via` prefix together with the board they lead to (computed on a fresh board, the
/// make-and-take-back steps left out — they must not matter): an un-made special move; an un-made special move and then
/// another move; a special move and a reply. For cases whose arguments (a move, a move text) must fit the FINAL position.
fn object_followups(c: &mut Ctx, p: &Pos, k: usize) -> Vec<(String, owlchess::Board)> {
    let sm = semis(&p.board);
    let mut special: Vec<Move> = sm.iter().copied().filter(|m| posgen::is_interesting(&p.board, m)).collect();
    special.sort_by_key(|m| (m.kind() as u8) < 6);
    let legal = true_legal_moves(&p.board);
    let mut out: Vec<(String, owlchess::Board)> = Vec::new();
    for u in special.iter().take(k) {
        out.push((format!("u{}", mv_fmt(u)), p.board.clone()));
        let mut follow: Vec<Move> = legal.iter().copied().filter(|m| m.src() == u.src() && m != u).collect();
        c.rng.shuffle(&mut follow);
        let mut other: Vec<Move> = legal.iter().copied().filter(|m| m.src() != u.src()).collect();
        c.rng.shuffle(&mut other);
        for m in follow.iter().take(2).chain(other.iter().take(1)) {
            if let Some(nb) = posgen::safe_make(&p.board, *m) {
                out.push((format!("u{},m{}", mv_fmt(u), mv_fmt(m)), nb));
            }
        }
    }
    for m1 in special.iter().filter(|m| legal.contains(m)).take(k) {
        if let Some(nb) = posgen::safe_make(&p.board, *m1) {
            out.push((format!("m{}", mv_fmt(m1)), nb.clone()));
            let mut replies = true_legal_moves(&nb);
            c.rng.shuffle(&mut replies);
            for m2 in replies.iter().take(1) {
                if let Some(nb2) = posgen::safe_make(&nb, *m2) {
                    out.push((format!("m{},m{}", mv_fmt(m1), mv_fmt(m2)), nb2));
                }
            }
        }
    }
    out
}

/// `line` (a position case `<op> RAW …` of position `p`) asked again of other board OBJECTS: after making and
/// un-making a special move (and the null move), and of the board a legal special move produced
fn object_cases(c: &mut Ctx, p: &Pos, stream: &str, line: &str, k_restored: usize, k_reached: usize) {
    let sm = semis(&p.board);
    let mut special: Vec<Move> = sm.iter().copied().filter(|m| posgen::is_interesting(&p.board, m)).collect();
    // promotions first (their undo is the most intricate), then the rest in a seeded order
    special.sort_by_key(|m| (m.kind() as u8) < 6);
    let tail = special.iter().position(|m| (m.kind() as u8) < 6).unwrap_or(special.len());
    c.rng.shuffle(&mut special[tail..]);
    let legal = true_legal_moves(&p.board);
    c.case(&format!("restored {}", stream), &format!("restored 0.0.0.0 {}", line));
    // the null move made and KEPT (search code passes the turn like this): side flipped, en-passant mark gone
    if !p.board.is_check() {
        c.case(&format!("via {}", stream), &format!("via n {}", line));
    }
    let mut quiet: Vec<Move> = sm.iter().copied().filter(|m| !posgen::is_interesting(&p.board, m)).collect();
    c.rng.shuffle(&mut quiet);
    for m in special.iter().take(k_restored).chain(quiet.iter().take(1)) {
        c.case(&format!("restored {}", stream), &format!("restored {} {}", mv_fmt(m), line));
    }
    let mut n = 0;
    for m in special.iter().filter(|m| legal.contains(m)) {
        if n >= k_reached {
            break;
        }
        n += 1;
        c.case(&format!("reached {}", stream), &format!("reached {} {}", mv_fmt(m), line));
    }
    // two plies: a special move and a reply (a stale right or set of the side that has just moved shows only when it
    // is that side's turn again)
    let mut n = 0;
    for m1 in special.iter().filter(|m| legal.contains(m)).take(k_reached) {
        if let Some(nb) = posgen::safe_make(&p.board, *m1) {
            let mut replies = true_legal_moves(&nb);
            c.rng.shuffle(&mut replies);
            // replies into a corner first (a rook's vacated home square is where a castling slip shows)
            replies.sort_by_key(|m| ![0usize, 7, 56, 63].contains(&m.dst().index()));
            for m2 in replies.iter().take(2) {
                if n >= 2 * k_reached {
                    break;
                }
                n += 1;
                c.case(&format!("via {}", stream), &format!("via m{},m{} {}", mv_fmt(m1), mv_fmt(m2), line));
            }
        }
    }
    // a special move made and taken back, THEN another move made: what a take-back left wrong in the hidden state of
    // the mover's men shows when the other side is to move (the same man moving differently first, then any move)
    let mut n = 0;
    for u in special.iter().take(k_restored) {
        let mut follow: Vec<Move> = legal.iter().copied().filter(|m| m.src() == u.src() && m != u).collect();
        c.rng.shuffle(&mut follow);
        let mut other: Vec<Move> = legal.iter().copied().filter(|m| m.src() != u.src()).collect();
        c.rng.shuffle(&mut other);
        for m in follow.iter().take(2).chain(other.iter().take(1)) {
            if n >= 2 * k_restored {
                break;
            }
            n += 1;
            c.case(&format!("via {}", stream), &format!("via u{},m{} {}", mv_fmt(u), mv_fmt(m), line));
        }
    }
}

// ------------------------------------------------------------------ properties

fn c01(c: &mut Ctx) {
    let n = c.vol(3000, 12.0);
    let mut ps = posgen::mix_f1_f2(&mut c.rng, n);
    let f3 = posgen::f3_all(&mut c.rng, c.thorough);
    c.st.add("f3_dropped_fens", f3.dropped_fens.len() as u64);
    ps.extend(f3.pos);
    for p in &ps {
        c.pos(p);
        let raw = p.raw_text();
        for legal in 0..2 {
            for which in 0..5 {
                c.case("gen", &format!("gen {} {} {}", raw, which, legal));
            }
        }
        let sm = semis(&p.board);
        for m in &sm {
            c.mv_stat(m);
            let mv = mv_fmt(m);
            c.case("mvalidate", &format!("mvalidate {} {}", raw, mv));
            c.case("legalunchecked", &format!("legalunchecked {} {}", raw, mv));
            c.case("make", &format!("make {} {}", raw, mv));
        }
        for _ in 0..10 {
            let t = near_miss_move(&mut c.rng, &p.board, &sm);
            c.st.mv_kind(t.0);
            c.st.bump("random_wf_moves");
            c.case("mvalidate", &format!("mvalidate {} {}", raw, mv4_fmt(t)));
        }
        let t = posgen::random_tuple(&mut c.rng);
        c.case("mvalidate", &format!("mvalidate {} {}", raw, mv4_fmt(t)));
        c.case(
            "legalunchecked",
            &format!("legalunchecked {} {}", raw, mv4_fmt(t)),
        );
    }
    // the generators asked of board objects that a make / unmake has touched
    for p in object_positions(c, 60) {
        c.pos(&p);
        let raw = p.raw_text();
        object_cases(c, &p, "gen", &format!("gen {} 0 1", raw), 6, 3);
        object_cases(c, &p, "gen", &format!("gen {} 0 0", raw), 2, 1);
        object_cases(c, &p, "gen", &format!("gen {} 1 1", raw), 2, 1);
    }
}

/// The SAN texts of pseudo-legal moves that are NOT legal (pinned men, king into check, captures that uncover the king),
/// written by hand since the library will not print them: every spelling must be refused.
fn illegal_san_texts(b: &Board, sm: &[Move], lm: &[Move], k: usize) -> Vec<String> {
    let mut sstr: Vec<String> = Vec::new();
    for m in sm.iter().filter(|m| !lm.contains(m)).take(k) {
        let (sf, df) = (m.src().file().as_char(), m.dst().file().as_char());
        let cap = b.get(m.dst()).is_occupied() || m.kind() == MoveKind::Enpassant;
        match m.src_cell().piece() {
            Some(Piece::Pawn) => {
                let promo = match m.kind() {
                    MoveKind::PromoteKnight => "=N",
                    MoveKind::PromoteBishop => "=B",
                    MoveKind::PromoteRook => "=R",
                    MoveKind::PromoteQueen => "=Q",
                    _ => "",
                };
                if cap {
                    sstr.push(format!("{}x{}{}", sf, m.dst(), promo));
                    sstr.push(format!("{}{}{}", sf, df, promo));
                } else {
                    sstr.push(format!("{}{}", m.dst(), promo));
                }
            }
            Some(pc) if m.kind() == MoveKind::Simple => {
                let l = ['P', 'K', 'N', 'B', 'R', 'Q'][pc.index()];
                let x = if cap { "x" } else { "" };
                sstr.push(format!("{}{}{}", l, x, m.dst()));
                sstr.push(format!("{}{}{}{}", l, sf, x, m.dst()));
                sstr.push(format!("{}{}{}{}", l, m.src().rank().as_char(), x, m.dst()));
                sstr.push(format!("{}{}{}{}", l, m.src(), x, m.dst()));
            }
            _ => {}
        }
    }
    sstr
}

fn makelike_all(c: &mut Ctx, p: &Pos, rich: bool) {
    let raw = p.raw_text();
    let b = &p.board;
    let sm = semis(b);
    let lm = true_legal_moves(b);
    for m in &sm {
        c.mv_stat(m);
        c.case(
            "makelike move",
            &format!("makelike {} move {}", raw, mv_fmt(m)),
        );
        let u = m.to_string();
        c.str_case("makelike ucistr", &format!("makelike {} ucistr ", raw), &u, "");
        c.str_case(
            "makelike ucimove",
            &format!("makelike {} ucimove ", raw),
            &u,
            "",
        );
    }
    for m in &lm {
        if let Some(s) = san_of(b, *m) {
            c.str_case("makelike sanstr", &format!("makelike {} sanstr ", raw), &s, "");
            c.str_case(
                "makelike sanmove",
                &format!("makelike {} sanmove ", raw),
                &s,
                "",
            );
        }
    }
    if !rich {
        return;
    }
    for _ in 0..3 {
        let t = near_miss_move(&mut c.rng, b, &sm);
        c.st.mv_kind(t.0);
        c.case(
            "makelike move",
            &format!("makelike {} move {}", raw, mv4_fmt(t)),
        );
    }
    c.case("makelike move", &format!("makelike {} move 0.0.0.0", raw));
    let t = posgen::random_tuple(&mut c.rng);
    c.case(
        "makelike move",
        &format!("makelike {} move {}", raw, mv4_fmt(t)),
    );
    let mut ustr: Vec<String> = Vec::new();
    for _ in 0..3 {
        ustr.push(strgen::random_uci(&mut c.rng));
    }
    ustr.push("0000".to_string());
    ustr.push(strgen::random_junk(&mut c.rng));
    ustr.push(c.rng.pick(&strgen::required()).clone());
    if let Some(m) = sm.first() {
        ustr.push(strgen::mutate(&mut c.rng, &m.to_string()));
    }
    for s in &ustr {
        c.str_case("makelike ucistr", &format!("makelike {} ucistr ", raw), s, "");
        c.str_case(
            "makelike ucimove",
            &format!("makelike {} ucimove ", raw),
            s,
            "",
        );
    }
    // short SAN-like strings
    let mut sstr: BTreeSet<String> = BTreeSet::new();
    sstr.insert("O-O".into());
    sstr.insert("O-O-O".into());
    sstr.insert("0-0".into());
    for m in &sm {
        let piece = m.src_cell().piece();
        let (sf, df) = (m.src().file().as_char(), m.dst().file().as_char());
        if piece == Some(Piece::Pawn) && sf != df {
            sstr.insert(format!("{}{}", sf, df));
            sstr.insert(format!("{}x{}", sf, m.dst()));
        }
    }
    let piece_moves: Vec<Move> = lm
        .iter()
        .copied()
        .filter(|m| {
            m.kind() == MoveKind::Simple && m.src_cell().piece() != Some(Piece::Pawn)
        })
        .collect();
    for _ in 0..3.min(piece_moves.len()) {
        let m = *c.rng.pick(&piece_moves);
        let l = ['P', 'K', 'N', 'B', 'R', 'Q'][m.src_cell().piece().unwrap().index()];
        let x = if b.get(m.dst()).is_occupied() { "x" } else { "" };
        sstr.insert(format!("{}{}{}", l, x, m.dst()));
        sstr.insert(format!("{}{}{}{}", l, m.src().file().as_char(), x, m.dst()));
        sstr.insert(format!("{}{}{}{}", l, m.src().rank().as_char(), x, m.dst()));
        sstr.insert(format!("{}{}{}{}", l, m.src(), x, m.dst()));
    }
    for m in lm.iter().take(2) {
        if let Some(s) = san_of(b, *m) {
            for v in strgen::san_variants(&s) {
                sstr.insert(v);
            }
        }
    }
    for t in illegal_san_texts(b, &sm, &lm, 8) {
        sstr.insert(t);
    }
    sstr.insert(strgen::random_junk(&mut c.rng));
    sstr.insert(strgen::random_sanlike(&mut c.rng));
    sstr.insert(c.rng.pick(&strgen::required()).clone());
    for s in &sstr {
        c.str_case("makelike sanstr", &format!("makelike {} sanstr ", raw), s, "");
        c.str_case(
            "makelike sanmove",
            &format!("makelike {} sanmove ", raw),
            s,
            "",
        );
    }
    c.case("validate", &format!("validate {}", raw));
    let fen = b.to_string();
    c.str_case("fenboard", "fenboard ", &fen, "");
}

fn c02(c: &mut Ctx) {
    let n = c.vol(1500, 8.0);
    let mut ps = posgen::mix_f1_f2(&mut c.rng, n);
    ps.extend(posgen::f3a(c.thorough));
    ps.extend(posgen::f3d(c.thorough));
    ps.extend(posgen::f3e(c.thorough));
    ps.extend(posgen::f3_crosspin().into_iter().step_by(if c.thorough { 1 } else { 4 }));
    ps.extend(posgen::f3_allpinned().into_iter().step_by(if c.thorough { 1 } else { 6 }));
    ps.extend(posgen::f3_manycheckers());
    ps.extend(posgen::f3a_discover());
    for p in &ps {
        c.pos(p);
        makelike_all(c, p, true);
    }
    // counters at their limits, every legal move through every move-like object
    let k = c.vol(60, 10.0);
    let base = posgen::mix_f1_f2(&mut c.rng, k);
    for p in &base {
        if let Some(q) = force_counters(&mut c.rng, p) {
            c.pos(&q);
            makelike_all(c, &q, false);
        }
    }
    let nc = c.vol(150, 15.0);
    chains(c, nc, Flavor::PushPop);
    // acceptance asked of board objects that a make / unmake has touched (a refused push rolls back in place)
    for p in object_positions(c, 30) {
        c.pos(&p);
        let raw = p.raw_text();
        let sm = semis(&p.board);
        for m in sm.iter().filter(|m| posgen::is_interesting(&p.board, m)).take(4) {
            object_cases(c, &p, "makelike move", &format!("makelike {} move {}", raw, mv_fmt(m)), 3, 1);
        }
        if let Some(m) = sm.first() {
            object_cases(c, &p, "makelike ucistr", &format!("makelike {} ucistr {}", raw, str_enc(&m.to_string())), 3, 1);
        }
    }
    // ... with the moves taken from the position the steps lead to
    for p in object_positions(c, 20) {
        c.pos(&p);
        let raw = p.raw_text();
        for (steps, fb) in object_followups(c, &p, 3) {
            let mut ms = semis(&fb);
            c.rng.shuffle(&mut ms);
            for m in ms.iter().take(4) {
                c.case("via makelike move", &format!("via {} makelike {} move {}", steps, raw, mv_fmt(m)));
            }
        }
    }
}

fn c03_positions(c: &mut Ctx, n: usize) -> Vec<Pos> {
    let mut ps = posgen::mix_f1_f2(&mut c.rng, n);
    ps.extend(posgen::f3d(c.thorough));
    ps.extend(posgen::f3e(c.thorough));
    let extra = posgen::mix_f1_f2(&mut c.rng, (n / 20).max(10));
    for p in &extra {
        if let Some(q) = force_counters(&mut c.rng, p) {
            ps.push(q);
        }
    }
    ps
}

fn c03(c: &mut Ctx) {
    let n = c.vol(3000, 50.0);
    let ps = c03_positions(c, n);
    for p in &ps {
        c.pos(p);
        let raw = p.raw_text();
        for m in true_legal_moves(&p.board) {
            c.mv_stat(&m);
            c.case("make", &format!("make {} {}", raw, mv_fmt(&m)));
        }
    }
    // applying a move to a board object that an earlier make / unmake has touched
    for p in object_positions(c, 30) {
        c.pos(&p);
        let raw = p.raw_text();
        let sm = semis(&p.board);
        for m in sm.iter().filter(|m| posgen::is_interesting(&p.board, m)).take(3).chain(sm.iter().take(2)) {
            object_cases(c, &p, "make", &format!("make {} {}", raw, mv_fmt(m)), 3, 1);
        }
    }
}

fn c04(c: &mut Ctx) {
    let n = c.vol(3000, 40.0);
    let ps = c03_positions(c, n);
    for p in &ps {
        c.pos(p);
        let raw = p.raw_text();
        for m in semis(&p.board) {
            c.mv_stat(&m);
            c.case("make", &format!("make {} {}", raw, mv_fmt(&m)));
        }
        c.st.mv_kind(0);
        c.case("make", &format!("make {} 0.0.0.0", raw));
        // family F6: a random tuple (mostly not well-formed -> `n/a`) and a well-formed
        // move that is usually not semilegal
        let t = posgen::random_tuple(&mut c.rng);
        c.case("make", &format!("make {} {}", raw, mv4_fmt(t)));
        let t = posgen::random_wf_move(&mut c.rng, Some(p.board.side()));
        c.st.mv_kind(t.0);
        c.case("make", &format!("make {} {}", raw, mv4_fmt(t)));
    }
    let nc = c.vol(200, 15.0);
    chains(c, nc, Flavor::DeepNest);
    // chains that contain null moves (pushed unchecked, as search code does): walked back and forth, popped, extended
    for _ in 0..c.vol(40, 10.0) {
        let p = start_pos(&mut c.rng, &mut c.pool);
        c.pos(&p);
        let s = chaingen::gen_null_line(&mut c.rng, &p);
        c.st.chain(&s.steps, s.final_len, &s.obs);
        c.case("chain", &s.line);
    }
}

fn c05(c: &mut Ctx) {
    let n = c.vol(2000, 50.0);
    let ps = c03_positions(c, n);
    for p in &ps {
        c.pos(p);
        let raw = p.raw_text();
        for m in true_legal_moves(&p.board) {
            c.mv_stat(&m);
            c.case("make", &format!("make {} {}", raw, mv_fmt(&m)));
        }
        // semilegal moves that leave the king attacked (a refused push makes and rolls back exactly these) and the null
        // move (search code): the stored sets and hash after the apply and after the undo
        for m in semis(&p.board).iter().filter(|m| m.validate(&p.board).is_err()).take(3) {
            c.mv_stat(m);
            c.case("make", &format!("make {} {}", raw, mv_fmt(m)));
        }
        c.st.mv_kind(0);
        c.case("make", &format!("make {} 0.0.0.0", raw));
    }
    // apply / undo of the special moves on board objects that an earlier apply / undo has already touched
    for p in object_positions(c, 40) {
        c.pos(&p);
        let raw = p.raw_text();
        let sm = semis(&p.board);
        for m in sm.iter().filter(|m| posgen::is_interesting(&p.board, m)).take(4).chain(sm.iter().take(1)) {
            object_cases(c, &p, "make", &format!("make {} {}", raw, mv_fmt(m)), 4, 1);
        }
        object_cases(c, &p, "make", &format!("make {} 0.0.0.0", raw), 4, 1);
    }
    let nc = c.vol(300, 15.0);
    chains(c, nc, Flavor::Hash);
}

fn c06(c: &mut Ctx) {
    for k in 0..10 {
        for cell in 0..13 {
            c.case("wfbulk", &format!("wfbulk {} {}", k, cell));
        }
    }
    let nb = c.vol(40, 3.0);
    let mut ps = posgen::mix_f1_f2(&mut c.rng, nb - nb / 4);
    let f3 = posgen::f3_all(&mut c.rng, false).pos;
    if let Ok(r) = RawBoard::from_str("8/8/8/K2Pp2r/8/8/8/7k w - e6 0 1") {
        ps.extend(posgen::pos_of(r, "F3a"));
    }
    for _ in 0..(nb / 4) {
        ps.push(c.rng.pick(&f3).clone());
    }
    for p in &ps {
        c.pos(p);
        c.case("semibulk", &format!("semibulk {}", p.raw_text()));
    }
    let n = c.vol(3000, 50.0);
    let ps = posgen::mix_f1_f2(&mut c.rng, n);
    for p in &ps {
        c.pos(p);
        let raw = p.raw_text();
        for which in 0..5 {
            c.case("gen", &format!("gen {} {} 0", raw, which));
        }
    }
    // generation and validation asked of board objects that a make / unmake has touched
    for p in object_positions(c, 30) {
        c.pos(&p);
        let raw = p.raw_text();
        object_cases(c, &p, "gen", &format!("gen {} 0 0", raw), 6, 2);
        object_cases(c, &p, "semibulk", &format!("semibulk {}", raw), 2, 1);
        let sm = semis(&p.board);
        for m in sm.iter().take(3) {
            object_cases(c, &p, "mvalidate", &format!("mvalidate {} {}", raw, mv_fmt(m)), 3, 0);
        }
    }
}

fn c07(c: &mut Ctx) {
    let n = c.vol(5000, 50.0);
    let mut ps = posgen::mix_f1_f2(&mut c.rng, n);
    let (f, bad) = posgen::f3f();
    c.st.add("f3_dropped_fens", bad.len() as u64);
    ps.extend(f);
    ps.extend(posgen::f3g(&mut c.rng, c.thorough));
    // extra to the stated list: the en-passant and check-evasion families, where the
    // legal-move test of `has_legal_moves` is most delicate
    ps.extend(posgen::f3a(c.thorough));
    ps.extend(posgen::f3c().0);
    for place in ["7K/8/8/5b2/8/8/7k/8", "8/8/4k3/8/8/3KN3/8/8", "8/8/4k3/8/8/3K4/8/8", "8/8/4kb2/8/8/3KB3/8/8", "8/8/4k3/8/8/3KR3/8/8"] {
        for side in ["w", "b"] {
            for mc in [0, 99, 100, 101, 120, 149, 150, 151, 300] {
                if let Ok(b) = owlchess::Board::from_fen(&format!("{} {} - - {} 90", place, side, mc)) {
                    ps.push(Pos { sent: *b.raw(), board: b, fam: "C07-draws" });
                }
            }
        }
    }
    ps.extend(posgen::f3_allpinned());
    ps.extend(posgen::f3_crosspin());
    ps.extend(posgen::f3_manycheckers());
    let singles = posgen::f3i(&mut c.rng, if c.thorough { 60 } else { 12 }, if c.thorough { 3_000_000 } else { 400_000 });
    for p in &singles {
        let ms = true_legal_moves(&p.board);
        if let Some(m) = ms.first() {
            let g = posgen::move_group(&p.board, m);
            c.st.add(&format!("f3i_only_{}{}", g, if p.board.is_check() { "_in_check" } else { "" }), 1);
        }
    }
    ps.extend(singles);
    for (i, p) in ps.iter().enumerate() {
        c.pos(p);
        c.case("outcome", &format!("outcome {}", p.raw_text()));
        // ... and of the positions its moves lead to, asked of the board the move produced: all moves of every
        // eighth position and of every sparse one (where mates, stalemates and dead positions live), else the
        // captures, promotions, castlings and en-passant captures
        let raw = p.raw_text();
        let men = (0..64).filter(|&s| p.board.get(owlchess::Coord::from_index(s)).is_occupied()).count();
        for m in true_legal_moves(&p.board) {
            if i % 8 == 0 || men <= 6 || posgen::is_interesting(&p.board, &m) {
                c.case("outcomeafter", &format!("outcomeafter {} {}", raw, mv_fmt(&m)));
            }
        }
    }
    // a forced outcome that coincides with a draw by the clock or by material, reached by a quiet move
    for (p, m, class) in posgen::quiet_finishers(&mut c.rng, if c.thorough { 400_000 } else { 60_000 }, if c.thorough { 40 } else { 6 }) {
        c.pos(&p);
        c.st.bump(&format!("finisher_{}", class));
        c.case("outcomeafter", &format!("outcomeafter {} {}", p.raw_text(), mv_fmt(&m)));
    }
    // classification asked of board objects that a make / unmake has touched
    for p in object_positions(c, 60) {
        c.pos(&p);
        object_cases(c, &p, "outcome", &format!("outcome {}", p.raw_text()), 6, 3);
    }
}

fn c08(c: &mut Ctx) {
    let n = c.vol(10000, 50.0);
    let mut valid_fens: Vec<String> = Vec::new();
    for i in 0..n {
        let (raw, fam) = if c.rng.chance(3, 5) {
            let p = posgen::f1(&mut c.rng);
            c.pos(&p);
            (p.sent, "F1")
        } else {
            let (r, t) = posgen::f4_fenlike(&mut c.rng);
            c.st.family_only(t);
            (r, t)
        };
        let rt = raw_fmt(&raw);
        c.case("fenformat", &format!("fenformat {}", rt));
        if fam == "F1" && i % 3 == 0 {
            // the Board's own formatter (`Board::as_fen`) and its round trip, on the validated board object (its
            // normalised raw contents are what the case names)
            if let Some(q) = posgen::pos_of(raw, "F1") {
                c.case("restored fenformat", &format!("restored 0.0.0.0 fenformat {}", raw_fmt(q.board.raw())));
            }
        }
        let fen = raw.to_string();
        c.str_case("fenparse", "fenparse ", &fen, "");
        if i % 4 == 0 {
            c.str_case("fenboard", "fenboard ", &fen, "");
        }
        if valid_fens.len() < 400 {
            valid_fens.push(fen);
        }
    }
    let m = c.vol(10000, 50.0);
    let mut specials = strgen::fen_specials();
    specials.extend(strgen::fen_ep_sweep());
    // crowded boards: the longest placement texts; parsed, and whatever parses is formatted again
    let crowded = strgen::crowded_placements(&mut c.rng, if c.thorough { 2000 } else { 150 });
    for s in &crowded {
        if let Ok(r) = RawBoard::from_str(s) {
            c.case("fenformat", &format!("fenformat {}", raw_fmt(&r)));
            if let Some(p) = posgen::pos_of(r, "crowded") {
                c.pos(&p);
                c.case("restored fenformat", &format!("restored 0.0.0.0 fenformat {}", raw_fmt(p.board.raw())));
            }
        }
    }
    specials.extend(crowded);
    let mut strs: Vec<String> = specials.clone();
    while strs.len() < m {
        let base = if c.rng.chance(1, 4) {
            c.rng.pick(&specials).clone()
        } else {
            c.rng.pick(&valid_fens).clone()
        };
        let mut s = strgen::mutate(&mut c.rng, &base);
        if c.rng.chance(1, 5) {
            s = strgen::mutate(&mut c.rng, &s);
        }
        strs.push(s);
    }
    for (i, s) in strs.iter().enumerate() {
        c.str_case("fenparse", "fenparse ", s, "");
        if i % 3 == 0 || i < specials.len() {
            c.str_case("fenboard", "fenboard ", s, "");
        }
    }
    // well-known placements with counters that are not those of a new game (a formatter must not recognise the placement
    // and forget the counters)
    for fen in [
        "rnbqkbnr/pppppppp/8/8/8/8/PPPPPPPP/RNBQKBNR w KQkq - 4 3",
        "rnbqkbnr/pppppppp/8/8/8/8/PPPPPPPP/RNBQKBNR w KQkq - 37 120",
        "rnbqkbnr/pppppppp/8/8/8/8/PPPPPPPP/RNBQKBNR b KQkq - 1 1",
        "rnbqkbnr/pppppppp/8/8/8/8/PPPPPPPP/RNBQKBNR w Kq - 0 1",
        "rnbqkbnr/pppppppp/8/8/8/8/PPPPPPPP/RNBQKBNR w KQkq - 0 2",
        "4k3/8/8/8/8/8/8/4K3 w - - 0 1",
        "4k3/8/8/8/8/8/8/4K3 b - - 65535 65535",
    ] {
        if let Ok(b) = owlchess::Board::from_fen(fen) {
            let rt = raw_fmt(b.raw());
            c.case("fenformat", &format!("fenformat {}", rt));
            c.case("restored fenformat", &format!("restored 0.0.0.0 fenformat {}", rt));
            c.case("via fenformat", &format!("via n fenformat {}", rt));
        }
    }
    // a null move made right after a double step: the mark must be gone from the board and from its FEN
    for p in posgen::f3a(false).iter().step_by(5).chain(posgen::f3_wrap().iter()) {
        if !p.board.is_check() {
            c.pos(p);
            c.case("via fenformat", &format!("via n fenformat {}", raw_fmt(p.board.raw())));
            c.case("via fenformat", &format!("via n,n fenformat {}", raw_fmt(p.board.raw())));
        }
    }
    // the FEN of board objects that a make / unmake has touched (`Board::as_fen`, and that it parses back to an equal board)
    for p in object_positions(c, 60) {
        c.pos(&p);
        object_cases(c, &p, "fenformat", &format!("fenformat {}", raw_fmt(p.board.raw())), 6, 6);
    }
}

fn san_grammar(b: &Board) -> Vec<String> {
    let mut v: Vec<String> = Vec::new();
    let files = "abcdefgh";
    // pawn pushes and promotions
    for d in 0..64u8 {
        let name = strgen::sq_name(d);
        v.push(name.clone());
        let row = d / 8;
        if row == 0 || row == 7 {
            v.push(format!("{}=Q", name));
            v.push(format!("{}Q", name));
            v.push(format!("{}=N", name));
        }
        // captures from adjacent files
        let f = (d % 8) as i32;
        for df in [-1, 1] {
            if (0..8).contains(&(f + df)) {
                let sf = files.as_bytes()[(f + df) as usize] as char;
                v.push(format!("{}x{}", sf, name));
                if row == 0 || row == 7 {
                    v.push(format!("{}x{}=N", sf, name));
                    v.push(format!("{}x{}Q", sf, name));
                }
            }
        }
    }
    // files-only pawn captures: every ordered pair of files, adjacent or not
    for a in 0..8usize {
        for bb in 0..8usize {
            if bb != a {
                let (x, y) = (files.as_bytes()[a] as char, files.as_bytes()[bb] as char);
                v.push(format!("{}{}", x, y));
                if a.abs_diff(bb) == 1 || a.abs_diff(bb) == 7 {
                    v.push(format!("{}{}=Q", x, y));
                    v.push(format!("{}{}N", x, y));
                }
            }
        }
    }
    // captures "from" the far edge file (a wrap-around in square arithmetic would accept them)
    for d in 0..64u8 {
        let f = d % 8;
        if f == 0 || f == 7 {
            let sf = if f == 0 { 'h' } else { 'a' };
            v.push(format!("{}x{}", sf, strgen::sq_name(d)));
        }
    }
    // piece moves to every square, with a capture sign where a man stands
    for l in ['N', 'B', 'R', 'Q', 'K'] {
        for d in 0..64u8 {
            let name = strgen::sq_name(d);
            v.push(format!("{}{}", l, name));
            if b.get(Coord::from_index(d as usize)).is_occupied() {
                v.push(format!("{}x{}", l, name));
                v.push(format!("{}:{}", l, name));
            }
        }
    }
    for s in ["O-O", "O-O-O", "0-0", "0-0-0", "O-O+", "O-O-O#", "0000"] {
        v.push(s.to_string());
    }
    v
}

fn c09(c: &mut Ctx) {
    let n = c.vol(500, 30.0);
    let mut ps = posgen::mix_f1_f2(&mut c.rng, n * 7 / 10);
    let f3 = posgen::f3_all(&mut c.rng, false).pos;
    if let Ok(r) = RawBoard::from_str("8/8/8/K2Pp2r/8/8/8/7k w - e6 0 1") {
        ps.extend(posgen::pos_of(r, "F3a"));
    }
    for _ in 0..(n * 3 / 10) {
        ps.push(c.rng.pick(&f3).clone());
    }
    ps.extend(posgen::f3_wrap());
    ps.extend(posgen::f3a_discover());
    ps.extend(posgen::f3_crosspin().into_iter().step_by(6));
    ps.extend(posgen::f3_manycheckers());
    // single-group positions reached by a checking move: the check / mate mark of that move
    // depends on one generator group of has_legal_moves
    {
        let singles = posgen::f3i(&mut c.rng, if c.thorough { 40 } else { 10 }, if c.thorough { 2_000_000 } else { 400_000 });
        let mut preds = posgen::f3i_predecessors(&singles);
        preds.extend(posgen::ep_predecessors(&singles));
        for (p, m) in preds {
            c.pos(&p);
            c.case("sanof", &format!("sanof {} {}", p.raw_text(), mv_fmt(&m)));
        }
    }
    let n_grammar = c.vol(100, 5.0);
    let mut all_strings: BTreeSet<String> = BTreeSet::new();
    for (pi, p) in ps.iter().enumerate() {
        c.pos(p);
        let raw = p.raw_text();
        let b = &p.board;
        let sm = semis(b);
        let lm = true_legal_moves(b);
        let mut strs: BTreeSet<String> = BTreeSet::new();
        for m in &lm {
            c.mv_stat(m);
            c.case("sanof", &format!("sanof {} {}", raw, mv_fmt(m)));
            if let Some(s) = san_of(b, *m) {
                let vars = strgen::san_variants(&s);
                for _ in 0..2.min(vars.len()) {
                    strs.insert(c.rng.pick(&vars).clone());
                }
                // hints beyond what is needed
                if m.kind() == MoveKind::Simple && m.src_cell().piece() != Some(Piece::Pawn) {
                    let l = s.chars().next().unwrap();
                    let x = if b.get(m.dst()).is_occupied() { "x" } else { "" };
                    if c.rng.chance(1, 3) {
                        strs.insert(format!("{}{}{}{}", l, m.src(), x, m.dst()));
                        strs.insert(format!(
                            "{}{}{}{}",
                            l,
                            m.src().file().as_char(),
                            x,
                            m.dst()
                        ));
                        strs.insert(format!(
                            "{}{}{}{}",
                            l,
                            m.src().rank().as_char(),
                            x,
                            m.dst()
                        ));
                    }
                }
                if m.src_cell().piece() == Some(Piece::Pawn) && m.src().file() != m.dst().file() {
                    strs.insert(format!(
                        "{}{}",
                        m.src().file().as_char(),
                        m.dst().file().as_char()
                    ));
                }
                strs.insert(s);
            }
        }
        let illegal: Vec<Move> = sm
            .iter()
            .copied()
            .filter(|m| m.validate(b).is_err())
            .collect();
        for m in illegal.iter().take(4) {
            c.mv_stat(m);
            c.st.bump("sanof_semilegal_illegal");
            c.case("sanof", &format!("sanof {} {}", raw, mv_fmt(m)));
        }
        for _ in 0..3 {
            let t = near_miss_move(&mut c.rng, b, &sm);
            c.st.mv_kind(t.0);
            c.case("sanof", &format!("sanof {} {}", raw, mv4_fmt(t)));
        }
        c.case("sanof", &format!("sanof {} 0.0.0.0", raw));
        let edge_ep = b.raw().ep_source.map(|s| s.file().index() == 0 || s.file().index() == 7).unwrap_or(false);
        if pi < n_grammar || (edge_ep && p.fam == "F3a") {
            for s in san_grammar(b) {
                strs.insert(s);
            }
        }
        for t in illegal_san_texts(b, &sm, &lm, 6) {
            strs.insert(t);
        }
        // a full origin square with the WRONG piece letter (the text must agree with the man that stands there)
        for m in lm.iter().filter(|m| m.kind() == MoveKind::Simple).take(3) {
            let x = if b.get(m.dst()).is_occupied() { "x" } else { "" };
            for l in ['K', 'Q', 'R', 'B', 'N'] {
                strs.insert(format!("{}{}{}{}", l, m.src(), x, m.dst()));
            }
        }
        for _ in 0..2 {
            strs.insert(strgen::random_junk(&mut c.rng));
            strs.insert(strgen::random_sanlike(&mut c.rng));
        }
        strs.insert(c.rng.pick(&strgen::required()).clone());
        for s in &strs {
            c.str_case("saninto", &format!("saninto {} ", raw), s, "");
        }
        all_strings.extend(strs);
    }
    for s in strgen::required() {
        all_strings.insert(s);
    }
    for s in &all_strings {
        c.str_case("sanparse", "sanparse ", s, "");
    }
    // notation asked of board objects that a make / unmake has touched
    for p in object_positions(c, 30) {
        c.pos(&p);
        let raw = p.raw_text();
        let lm = true_legal_moves(&p.board);
        for m in lm.iter().take(6) {
            object_cases(c, &p, "sanof", &format!("sanof {} {}", raw, mv_fmt(m)), 3, 1);
            if let Some(t) = san_of(&p.board, *m) {
                object_cases(c, &p, "saninto", &format!("saninto {} {}", raw, str_enc(&t)), 2, 1);
            }
        }
    }
    // ... with the moves and texts taken from the position the steps lead to
    for p in object_positions(c, 20) {
        c.pos(&p);
        let raw = p.raw_text();
        for (steps, fb) in object_followups(c, &p, 3) {
            let mut ms = true_legal_moves(&fb);
            c.rng.shuffle(&mut ms);
            for m in ms.iter().take(4) {
                c.case("via sanof", &format!("via {} sanof {} {}", steps, raw, mv_fmt(m)));
                if let Some(t) = san_of(&fb, *m) {
                    c.case("via saninto", &format!("via {} saninto {} {}", steps, raw, str_enc(&t)));
                }
            }
        }
    }
}

fn has_special(b: &Board) -> bool {
    semis(b).iter().any(|m| m.kind() != MoveKind::Simple)
}

fn c10(c: &mut Ctx) {
    let all = strgen::uci_grammar_all();
    for s in &all {
        c.str_case("uciparse", "uciparse ", s, "");
    }
    let nj = c.vol(3000, 10.0);
    let mut junk: Vec<String> = strgen::required();
    for s in strgen::SHORT_VALID {
        junk.extend(strgen::splice_all(s));
    }
    while junk.len() < nj {
        let base = c.rng.pick(&all).clone();
        junk.push(match c.rng.usize(4) {
            0 => strgen::random_junk(&mut c.rng),
            _ => strgen::mutate(&mut c.rng, &base),
        });
    }
    for s in &junk {
        c.str_case("uciparse", "uciparse ", s, "");
    }
    // every grammar string, all three modes, on a few positions rich in special moves
    let np = c.vol(25, 2.0);
    let mut chosen: Vec<Pos> = Vec::new();
    let f3 = posgen::f3_all(&mut c.rng, false).pos;
    let mut guard = 0;
    while chosen.len() < np && guard < 100_000 {
        guard += 1;
        let p = if c.rng.chance(1, 3) {
            c.rng.pick(&f3).clone()
        } else {
            c.pool.draw(&mut c.rng)
        };
        if has_special(&p.board) || c.rng.chance(1, 4) {
            chosen.push(p);
        }
    }
    // the board-edge positions: every grammar string between the two edge files (where index arithmetic wraps)
    for p in posgen::f3_wrap() {
        c.pos(&p);
        let raw = p.raw_text();
        for s in all.iter().filter(|s| {
            let b = s.as_bytes();
            b.len() >= 4 && (b[0] == b'a' || b[0] == b'h') && (b[2] == b'a' || b[2] == b'h')
        }) {
            let enc = str_enc(s);
            for mode in ["basic", "semi", "legal"] {
                c.case("uciinto", &format!("uciinto {} {} {}", raw, enc, mode));
            }
        }
    }
    for p in &chosen {
        c.pos(p);
        let raw = p.raw_text();
        for s in &all {
            let enc = str_enc(s);
            for mode in ["basic", "semi", "legal"] {
                c.case(
                    "uciinto",
                    &format!("uciinto {} {} {}", raw, enc, mode),
                );
            }
        }
        for s in junk.iter().take(200) {
            let mode = *c.rng.pick(&["basic", "semi", "legal"]);
            c.str_case("uciinto", &format!("uciinto {} ", raw), s, &format!(" {}", mode));
        }
    }
    // positions right after a double step that can be answered en passant (all of those where the double step
    // gave check, a sample of the others): the legal-checking reader on every semilegal move
    {
        let want = c.vol(600, 8.0);
        let mut got = 0usize;
        let mut tries = 0usize;
        while got < want && tries < want * 400 {
            tries += 1;
            let p = c.pool.draw(&mut c.rng);
            let b = &p.board;
            let doubles: Vec<Move> = semis(b).into_iter().filter(|m| m.kind() == MoveKind::PawnDouble).collect();
            for d in doubles {
                let nb = match b.make_move(d) { Ok(x) => x, Err(_) => continue };
                if nb.raw().ep_source.is_none() { continue; }
                let sm = semis(&nb);
                if !sm.iter().any(|m| m.kind() == MoveKind::Enpassant) { continue; }
                if !(nb.is_check() || c.rng.chance(1, 6)) { continue; }
                let raw = codec::raw_fmt(nb.raw());
                c.st.bump(if nb.is_check() { "ep_after_checking_double" } else { "ep_after_double" });
                for m in sm {
                    let enc = str_enc(&m.to_string());
                    for mode in ["semi", "legal"] {
                        c.case("uciinto", &format!("uciinto {} {} {}", raw, enc, mode));
                    }
                }
                got += 1;
            }
        }
    }
    // format → parse round trip for every semilegal move
    let n = c.vol(2000, 10.0);
    let ps = posgen::mix_f1_f2(&mut c.rng, n);
    for p in &ps {
        c.pos(p);
        let raw = p.raw_text();
        for m in semis(&p.board) {
            c.mv_stat(&m);
            c.case("ucifmt", &format!("ucifmt {}", mv_fmt(&m)));
            let enc = str_enc(&m.to_string());
            for mode in ["basic", "semi", "legal"] {
                c.case(
                    "uciinto",
                    &format!("uciinto {} {} {}", raw, enc, mode),
                );
            }
        }
    }
    c.case("ucifmt", "ucifmt 0.0.0.0");
    // move readers asked of board objects that a make / unmake has touched
    for p in object_positions(c, 30) {
        c.pos(&p);
        let raw = p.raw_text();
        let sm = semis(&p.board);
        for m in sm.iter().take(8) {
            object_cases(c, &p, "uciinto", &format!("uciinto {} {} legal", raw, str_enc(&m.to_string())), 3, 1);
        }
    }
    // ... with the move texts taken from the position the steps lead to
    for p in object_positions(c, 30) {
        c.pos(&p);
        let raw = p.raw_text();
        for (steps, fb) in object_followups(c, &p, 4) {
            let mut ms = semis(&fb);
            c.rng.shuffle(&mut ms);
            for m in ms.iter().take(6) {
                c.case("via uciinto", &format!("via {} uciinto {} {} legal", steps, raw, str_enc(&m.to_string())));
            }
        }
    }
}

fn c11(c: &mut Ctx) {
    let n = c.vol(20000, 50.0);
    for _ in 0..n {
        if c.rng.chance(7, 10) {
            let (r, t) = posgen::f4(&mut c.rng);
            c.st.family_only(t);
            match Board::try_from(r) {
                Ok(b) => {
                    c.st.pos(&b, "F4-accepted");
                }
                Err(e) => {
                    let name = codec::e_board_validate(&e);
                    let name = name.split('(').next().unwrap().to_string();
                    c.st.bump(&format!("reject:{}", name));
                }
            }
            c.case("validate", &format!("validate {}", raw_fmt(&r)));
        } else {
            let p = posgen::f1(&mut c.rng);
            c.pos(&p);
            c.case("validate", &format!("validate {}", p.raw_text()));
        }
    }
}

fn valid_strings(c: &mut Ctx, n_pos: usize) -> Vec<String> {
    let ps = posgen::mix_f1_f2(&mut c.rng, n_pos);
    let mut v: Vec<String> = Vec::new();
    for p in &ps {
        v.push(p.board.to_string());
        let lm = true_legal_moves(&p.board);
        for m in lm.iter().take(3) {
            v.push(m.to_string());
            if let Some(s) = san_of(&p.board, *m) {
                v.push(s);
            }
        }
    }
    v
}

fn c12(c: &mut Ctx) {
    let valid = valid_strings(c, 150);
    let nm = c.vol(6000, 25.0);
    let mut pool = strgen::f5_pool(&mut c.rng, &valid, nm);
    pool.extend(strgen::fen_ep_sweep());
    pool.extend(strgen::crowded_placements(&mut c.rng, 40));
    for s in &pool {
        c.str_case("fenparse", "fenparse ", s, "");
        c.str_case("fenboard", "fenboard ", s, "");
        c.str_case("uciparse", "uciparse ", s, "");
        c.str_case("sanparse", "sanparse ", s, "");
        for ty in ["coord", "cell", "color", "rights"] {
            c.case(
                &format!("parse {}", ty),
                &format!("parse {} {}", ty, str_enc(s)),
            );
        }
    }
    let np = c.vol(20, 3.0);
    let ps = posgen::mix_f1_f2(&mut c.rng, np);
    let per = 2000.min(pool.len());
    for p in &ps {
        c.pos(p);
        let raw = p.raw_text();
        for _ in 0..per {
            let s = c.rng.pick(&pool).clone();
            if s.len() > 200 && c.rng.chance(9, 10) {
                continue;
            }
            c.str_case("saninto", &format!("saninto {} ", raw), &s, "");
            let mode = *c.rng.pick(&["basic", "semi", "legal"]);
            c.str_case("uciinto", &format!("uciinto {} ", raw), &s, &format!(" {}", mode));
        }
    }
    let nc = c.vol(100, 15.0);
    chains(c, nc, Flavor::JunkList);
    // the short pawn-capture forms (every ordered pair of files, with and without a promotion suffix) and every UCI-shaped
    // edge move, read in the positions with an en-passant mark on an edge file
    for p in posgen::f3_wrap().iter().chain(posgen::f3a(false).iter().step_by(17)) {
        c.pos(p);
        let raw = p.raw_text();
        let files = "abcdefgh";
        for a in files.chars() {
            for b in files.chars() {
                if a != b {
                    for suffix in ["", "=Q", "N", "+", "#"] {
                        c.str_case("saninto", &format!("saninto {} ", raw), &format!("{}{}{}", a, b, suffix), "");
                    }
                    c.str_case("saninto", &format!("saninto {} ", raw), &format!("{}x{}", a, b), "");
                }
            }
        }
    }
}

fn c13(c: &mut Ctx) {
    let n = c.vol(300, 15.0);
    chains(c, n, Flavor::General);
    // one position occurring six to nine times and then popped (possibly all the way): every pop must undo one push
    for _ in 0..(n / 6).max(15) {
        let p = start_pos(&mut c.rng, &mut c.pool);
        c.pos(&p);
        let s = chaingen::gen_deep_repeat(&mut c.rng, &p);
        c.st.chain(&s.steps, s.final_len, &s.obs);
        c.case("chain", &s.line);
    }
    // equality probes: same moves from a different start; reversible cycles from saturated counters
    let m = c.vol(150, 15.0);
    for _ in 0..m {
        let p = start_pos(&mut c.rng, &mut c.pool);
        c.pos(&p);
        let s = chaingen::gen_eq_probe(&mut c.rng, &p);
        c.st.chain(&s.steps, s.final_len, &s.obs);
        c.case("chain", &s.line);
    }
    // castlings pushed into a chain as a move, as UCI and as SAN — the legal ones and the ones that are semilegal but land
    // on an attacked square (a refused push must change nothing)
    let mut castle_pos: Vec<Pos> = posgen::f3d(false);
    for fen in [
        "4k3/8/8/2b5/8/8/8/4K2R w K - 0 1",
        "4k3/8/8/8/8/2b5/8/R3K3 w Q - 0 1",
        "r3k3/8/1N6/8/8/8/8/4K3 b q - 0 1",
        "4k2r/8/8/8/1B6/8/8/4K3 b k - 0 1",
    ] {
        if let Ok(b) = owlchess::Board::from_fen(fen) {
            castle_pos.push(Pos { sent: *b.raw(), board: b, fam: "F3d" });
        }
    }
    let mut n_castle = 0;
    for p in &castle_pos {
        for m in semis(&p.board) {
            if m.kind() != MoveKind::CastlingKingside && m.kind() != MoveKind::CastlingQueenside {
                continue;
            }
            n_castle += 1;
            if n_castle > if c.thorough { 400 } else { 60 } {
                break;
            }
            c.pos(p);
            let san = if m.kind() == MoveKind::CastlingKingside { "O-O" } else { "O-O-O" };
            for push in [format!("pm {}", mv_fmt(&m)), format!("pu {}", str_enc(&m.to_string())), format!("ps {}", str_enc(san))] {
                let s = chaingen::gen_text_line(&mut c.rng, p, &[push]);
                c.case("chain", &s.line);
            }
        }
    }
    // chains that contain null moves (pushed unchecked, as search code does): walked back and forth, popped, extended
    for _ in 0..c.vol(20, 10.0) {
        let p = start_pos(&mut c.rng, &mut c.pool);
        c.pos(&p);
        let s = chaingen::gen_null_line(&mut c.rng, &p);
        c.st.chain(&s.steps, s.final_len, &s.obs);
        c.case("chain", &s.line);
    }
    // every SAN spelling of pseudo-legal moves that are not legal (pinned men, cross pins, king into check), pushed into a
    // chain: each must be refused and change nothing
    let mut pinpos: Vec<Pos> = posgen::f3_crosspin().into_iter().step_by(5).collect();
    pinpos.extend(posgen::f3_allpinned().into_iter().step_by(9));
    pinpos.extend(posgen::f3b(false).into_iter().step_by(7));
    for p in pinpos.iter().take(if c.thorough { 400 } else { 70 }) {
        let sm = semis(&p.board);
        let lm = true_legal_moves(&p.board);
        let texts = illegal_san_texts(&p.board, &sm, &lm, 3);
        if texts.is_empty() {
            continue;
        }
        c.pos(p);
        let mut steps: Vec<String> = vec!["st".to_string()];
        for t in texts.iter().take(8) {
            steps.push(format!("ps {}", str_enc(t)));
            steps.push("st".to_string());
        }
        c.case("chain", &format!("chain {} ; {}", p.raw_text(), steps.join(" ; ")));
    }
}

fn c14(c: &mut Ctx) {
    let n = c.vol(300, 15.0);
    chains(c, n, Flavor::Repetition);
    // a forced outcome that coincides with a draw by the clock or by material (the forced one must be reported)
    for (p, m, class) in posgen::quiet_finishers(&mut c.rng, if c.thorough { 400_000 } else { 60_000 }, if c.thorough { 40 } else { 6 }) {
        c.pos(&p);
        c.st.bump(&format!("finisher_{}", class));
        let s = chaingen::gen_finisher(&p, &m);
        c.case("chain", &s.line);
    }
    // repetitions in positions with insufficient material and with clocks near the limits: the mandatory draw must be
    // reported, not the claimable repetition
    for fen in [
        "8/8/4k3/8/8/3KB3/8/8 w - - 10 60",
        "8/8/4k3/8/8/3KN3/8/8 b - - 3 7",
        "8/8/4k3/8/8/3K4/8/8 w - - 0 1",
        "8/8/4kb2/8/8/3KB3/8/8 w - - 0 1",
        "8/8/4k3/8/8/3KR3/8/8 w - - 140 90",
        "8/8/4k3/8/8/3KR3/8/8 w - - 92 90",
        "8/8/4k3/8/8/3KBB2/8/8 w - - 0 1",
    ] {
        if let Ok(b) = owlchess::Board::from_fen(fen) {
            let p = Pos { sent: *b.raw(), board: b, fam: "C14-draws" };
            for _ in 0..3 {
                c.pos(&p);
                let s = chaingen::gen_deep_repeat(&mut c.rng, &p);
                c.st.chain(&s.steps, s.final_len, &s.obs);
                c.case("chain", &s.line);
                let s = chaingen::gen_script(&mut c.rng, &p, Flavor::Repetition, 60);
                c.st.chain(&s.steps, s.final_len, &s.obs);
                c.case("chain", &s.line);
            }
        }
    }
    // one position occurring six to nine times, popped back across the thresholds, partly replayed
    for _ in 0..(n / 4).max(20) {
        let p = start_pos(&mut c.rng, &mut c.pool);
        c.pos(&p);
        let s = chaingen::gen_deep_repeat(&mut c.rng, &p);
        c.st.chain(&s.steps, s.final_len, &s.obs);
        c.case("chain", &s.line);
    }
    // repetitions produced by null moves (search code passes the turn): two null moves bring the same position back while
    // the clock may stay at zero (model correspondence only: a null move is not a move of the rules)
    for fen in [
        "rnbqkbnr/pppppppp/8/8/8/8/PPPPPPPP/RNBQKBNR w KQkq - 0 1",
        "r3k2r/8/8/8/8/8/8/R3K2R b KQkq - 3 9",
        "4k3/8/8/8/8/8/4P3/4K3 w - - 0 1",
        "n3k3/8/8/8/8/8/8/4K2R w K - 6 20",
    ] {
        if let Ok(b) = owlchess::Board::from_fen(fen) {
            let p = Pos { sent: *b.raw(), board: b, fam: "C14-null" };
            c.pos(&p);
            for tail in ["auto s", "auto r", "auto f"] {
                let steps = ["st", "pn", "pn", "calc", "pn", "pn", "calc", "st", "pn", "pn", "calc", "pn", "pn", "calc", "pn", "pn", "calc", tail, "st", "pop", "pop", "calc", "st"];
                c.case("chain", &format!("chain {} ; {}", p.raw_text(), steps.join(" ; ")));
            }
        }
    }
}

fn ray_mask(sq: usize, diag: bool) -> u64 {
    let mut m = 0u64;
    for (dr, dc) in posgen::DIRS8 {
        if (dr != 0 && dc != 0) != diag {
            continue;
        }
        let (mut r, mut cc) = ((sq / 8) as i32 + dr, (sq % 8) as i32 + dc);
        while (0..8).contains(&r) && (0..8).contains(&cc) {
            m |= 1u64 << (r * 8 + cc);
            r += dr;
            cc += dc;
        }
    }
    m
}

fn random_occ(rng: &mut Rng, sq: usize, diag: bool) -> u64 {
    match rng.usize(6) {
        0 => {
            // sparse
            let mut o = 0u64;
            for _ in 0..(1 + rng.usize(5)) {
                o |= 1u64 << rng.usize(64);
            }
            o
        }
        1 => rng.next_u64() | rng.next_u64(),
        2 => rng.next_u64(),
        3 => rng.next_u64() & rng.next_u64(),
        _ => {
            // random submask of the relevant rays, sometimes with noise elsewhere
            let m = ray_mask(sq, diag);
            let mut o = m & rng.next_u64();
            if rng.chance(1, 2) {
                o &= rng.next_u64();
            }
            if rng.chance(1, 3) {
                o |= rng.next_u64() & !m;
            }
            if rng.chance(1, 4) {
                o |= 1u64 << sq;
            }
            o
        }
    }
}

fn c15(c: &mut Ctx) {
    let per = c.vol(300, 40.0);
    for sq in 0..64usize {
        for piece in ["k", "n", "pw", "pb"] {
            c.case(&format!("atk {}", piece), &format!("atk {} {} 0", piece, sq));
            for _ in 0..2 {
                let o = c.rng.next_u64();
                c.case(
                    &format!("atk {}", piece),
                    &format!("atk {} {} {:x}", piece, sq, o),
                );
            }
        }
        for (piece, diag) in [("r", false), ("b", true)] {
            c.case(&format!("atk {}", piece), &format!("atk {} {} 0", piece, sq));
            c.case(
                &format!("atk {}", piece),
                &format!("atk {} {} ffffffffffffffff", piece, sq),
            );
            let m = ray_mask(sq, diag);
            c.case(
                &format!("atk {}", piece),
                &format!("atk {} {} {:x}", piece, sq, m),
            );
            if c.thorough && c.scale >= 1.0 {
                // exhaustive over the submasks of the rays (carry-rippler)
                let mut sub = 0u64;
                loop {
                    c.case(
                        &format!("atk {}", piece),
                        &format!("atk {} {} {:x}", piece, sq, sub),
                    );
                    sub = sub.wrapping_sub(m) & m;
                    if sub == 0 {
                        break;
                    }
                }
                c.st.bump("atk_exhaustive_squares");
            }
            for _ in 0..per {
                let o = random_occ(&mut c.rng, sq, diag);
                c.st.bump(&format!("occ_popcount_{:02}", (o.count_ones() / 8) * 8));
                c.case(
                    &format!("atk {}", piece),
                    &format!("atk {} {} {:x}", piece, sq, o),
                );
            }
        }
    }
    for a in 0..64 {
        for b in 0..64 {
            c.case("btw", &format!("btw {} {}", a, b));
        }
    }
}

fn c16(c: &mut Ctx) {
    let n = c.vol(2000, 50.0);
    let mut ps = posgen::mix_f1_f2(&mut c.rng, n);
    ps.extend(posgen::f3c().0);
    // several queens / rooks / bishops of one colour (a query that stops at the first man of a kind), many checkers at once
    ps.extend(posgen::f3h(&mut c.rng, false).into_iter().step_by(2));
    ps.extend(posgen::f3_manycheckers());
    ps.extend(posgen::f3_crosspin().into_iter().step_by(8));
    for fen in [
        "7k/Q7/8/8/8/8/1Q6/K7 b - - 0 1",
        "7k/R7/8/8/8/8/7R/K7 b - - 0 1",
        "7k/8/8/8/3B4/8/8/K5B1 b - - 0 1",
        "k7/8/8/8/8/8/6q1/q6K w - - 0 1",
        "6k1/8/8/8/8/1N6/8/K4N2 b - - 0 1",
    ] {
        if let Ok(b) = owlchess::Board::from_fen(fen) {
            ps.push(Pos { sent: *b.raw(), board: b, fam: "C16-many" });
        }
    }
    for p in &ps {
        c.pos(p);
        let raw = p.raw_text();
        c.case("attackers", &format!("attackers {}", raw));
        c.case("check", &format!("check {}", raw));
    }
    // ... and under the object prefixes (two plies, an un-made special move followed by another move, the null move)
    for p in object_positions(c, 40) {
        c.pos(&p);
        let raw = p.raw_text();
        object_cases(c, &p, "attackers", &format!("attackers {}", raw), 4, 4);
        object_cases(c, &p, "check", &format!("check {}", raw), 4, 4);
    }
    // the same queries asked of the board object a move produced, and of that object after the move was taken back
    // (captures, promotions, castlings, en passant, double steps; a few quiet moves; illegal semilegal moves: undo only)
    let mut qs: Vec<Pos> = posgen::f3a(false);
    qs.extend(posgen::f3c().0);
    for p in ps.iter().take(c.vol(600, 20.0)) {
        qs.push(p.clone());
    }
    for p in &qs {
        let raw = p.raw_text();
        let sm = semis(&p.board);
        let mut quiet = 0;
        for m in &sm {
            let special = posgen::is_interesting(&p.board, m);
            if special || (quiet < 2 && c.rng.chance(1, 6)) {
                if !special {
                    quiet += 1;
                }
                c.mv_stat(m);
                c.case("queryafter", &format!("queryafter {} {}", raw, mv_fmt(m)));
            }
        }
    }
}

fn c17(c: &mut Ctx) {
    let n = c.vol(300, 15.0);
    chains(c, n, Flavor::Print);
    // games whose printed check / mate marks hang on ONE generator group of `has_legal_moves`: a checking move into a
    // single-group position (incl. a double step answered only by en passant), then the only kind of reply
    // en-passant captures (especially by a- and h-pawns) recorded through their SAN text, then printed and replayed:
    // the readers, the generator and the validator must agree on them
    let mut eps: Vec<Pos> = posgen::f3_wrap();
    eps.extend(posgen::f3a(c.thorough));
    let mut n_edge = 0usize;
    for p in &eps {
        // read off the squares, not asked of the library: the victim is the marked pawn, a capturer stands next to it
        let r = p.board.raw();
        let v = match r.ep_source {
            Some(s) => s.index(),
            None => continue,
        };
        let white = r.side == owlchess::Color::White;
        let own_pawn = if white { posgen::WP } else { posgen::BP };
        let dst = if white { v - 8 } else { v + 8 };
        for cf in [(v % 8) as i32 - 1, (v % 8) as i32 + 1] {
            if !(0..8).contains(&cf) {
                continue;
            }
            let cs = (v / 8) * 8 + cf as usize;
            if r.cells[cs].index() as u8 != own_pawn {
                continue;
            }
            let edge = cf == 0 || cf == 7;
            if !edge && n_edge % 5 != 0 {
                continue;
            }
            if edge {
                n_edge += 1;
                if n_edge > if c.thorough { 400 } else { 60 } {
                    continue;
                }
            }
            c.pos(p);
            let files = "abcdefgh".as_bytes();
            let text = format!("{}x{}", files[cf as usize] as char, owlchess::Coord::from_index(dst));
            let short = format!("{}{}", files[cf as usize] as char, files[dst % 8] as char);
            for t in [text, short] {
                let s = chaingen::gen_text_line(&mut c.rng, p, &[format!("ps {}", str_enc(&t))]);
                c.case("chain", &s.line);
            }
        }
    }
    let singles = posgen::f3i(&mut c.rng, if c.thorough { 40 } else { 10 }, if c.thorough { 2_000_000 } else { 400_000 });
    let mut lines: Vec<(Pos, Move)> = posgen::f3i_predecessors(&singles);
    lines.extend(posgen::ep_predecessors(&singles));
    c.st.add("single_group_lines", lines.len() as u64);
    for (p, m) in lines.iter().take(if c.thorough { 400 } else { 80 }) {
        c.pos(p);
        let mut line = vec![*m];
        if let Some(nb) = posgen::safe_make(&p.board, *m) {
            if let Some(r) = true_legal_moves(&nb).first() {
                line.push(*r);
            }
        }
        let s = chaingen::gen_line(&mut c.rng, p, &line);
        c.case("chain", &s.line);
    }
    // right after a double pawn step, a NON-pawn man lands on the square the pawn passed over (where an en-passant capture
    // would land): recorded, printed, and the UCI text replayed
    let mut n_over = 0usize;
    let mut cand: Vec<Pos> = posgen::f3a(false);
    for _ in 0..(if c.thorough { 3000 } else { 600 }) {
        cand.push(c.pool.draw(&mut c.rng));
    }
    for p in &cand {
        let r = p.board.raw();
        let v = match r.ep_source {
            Some(s) => s.index(),
            None => continue,
        };
        let dst = if r.side == owlchess::Color::White { v - 8 } else { v + 8 };
        for m in true_legal_moves(&p.board) {
            if m.dst().index() == dst && m.src_cell().piece() != Some(Piece::Pawn) && m.src().file() != m.dst().file() {
                n_over += 1;
                if n_over > if c.thorough { 300 } else { 50 } {
                    break;
                }
                c.pos(p);
                let s = chaingen::gen_line(&mut c.rng, p, &[m]);
                c.case("chain", &s.line);
            }
        }
    }
    c.st.add("non_pawn_onto_passed_square_lines", n_over as u64);
}

fn c18(c: &mut Ctx) {
    let n = c.vol(3000, 50.0);
    let mut ps = posgen::mix_f1_f2(&mut c.rng, n);
    ps.extend(posgen::f3a(false));
    ps.extend(posgen::f3d(false));
    ps.extend(posgen::f3_allpinned());
    ps.extend(posgen::f3_crosspin().into_iter().step_by(3));
    ps.extend(posgen::f3_manycheckers());
    ps.extend(posgen::f3a_discover());
    for p in &ps {
        c.pos(p);
        c.case("mirror v", &format!("mirror {} v", p.raw_text()));
    }
    let m = c.vol(2000, 50.0);
    let mut cnt = 0;
    while cnt < m {
        let p = c.pool.draw(&mut c.rng);
        if p.board.raw().castling.index() != 0 {
            // keep a few: the answer is `n/a`
            if c.rng.chance(1, 40) {
                c.case("mirror h", &format!("mirror {} h", p.raw_text()));
            }
            continue;
        }
        // send the normalised raw board so that stale rights do not turn real after the flip
        let q = Pos {
            sent: *p.board.raw(),
            board: p.board.clone(),
            fam: p.fam,
        };
        c.pos(&q);
        c.case("mirror h", &format!("mirror {} h", q.raw_text()));
        cnt += 1;
    }
    // the symmetry asked of board objects that a make / unmake has touched (the mirror image is built afresh)
    for p in object_positions(c, 60) {
        c.pos(&p);
        object_cases(c, &p, "mirror v", &format!("mirror {} v", p.raw_text()), 5, 8);
    }
}

fn c19(c: &mut Ctx) {
    // index constructors that guard the table indices (square, piece, cell, colour, castling rights)
    for t in ["file", "rank", "coord", "piece", "cell", "color", "rights"] {
        c.case(&format!("conv {}", t), &format!("conv {}", t));
    }
    // ... and the character constructors that feed square / cell indices (ASCII and Latin-1)
    for ty in ["file", "rank", "cell", "color"] {
        for cp in 0u32..0x100 {
            c.case("fromchar", &format!("fromchar {} {}", ty, cp));
        }
    }
    for a in 0u32..0x80 {
        for b in [0x30u32, 0x31, 0x38, 0x39, 0x60, 0x61, 0x68, 0x69] {
            // two-character coordinates around the valid ranges
            let s: String = [char::from_u32(a).unwrap(), char::from_u32(b).unwrap()].iter().collect();
            c.str_case("parse coord", "parse coord ", &s, "");
            let s2: String = [char::from_u32(b).unwrap(), char::from_u32(a).unwrap()].iter().collect();
            c.str_case("parse coord", "parse coord ", &s2, "");
        }
    }
    // the gate that bounds the number of men (and so the number of moves): raw boards around its limits; whatever the
    // library accepts is also put through the generators
    let nf4 = c.vol(3000, 20.0);
    let mut ps = posgen::f3h(&mut c.rng, c.thorough);
    for _ in 0..nf4 {
        let (r, t) = posgen::f4(&mut c.rng);
        c.st.family_only(t);
        c.case("validate", &format!("validate {}", raw_fmt(&r)));
        if let Some(p) = posgen::pos_of(r, "F4-accepted") {
            if c.rng.chance(1, 4) {
                ps.push(p);
            }
        }
    }
    let n = c.vol(2000, 50.0);
    for _ in 0..n {
        ps.push(posgen::f1_dense(&mut c.rng));
    }
    let mut maxm = 0usize;
    for (i, p) in ps.iter().enumerate() {
        c.pos(p);
        let raw = p.raw_text();
        let k = posgen::semilegal_count(&p.board);
        maxm = maxm.max(k);
        c.st.bump(&format!("semilegal_count_{:03}", (k / 20) * 20));
        c.case("genvec", &format!("genvec {}", raw));
        c.case("gen", &format!("gen {} 0 0", raw));
        if i % 4 == 0 {
            c.case("attackers", &format!("attackers {}", raw));
        }
    }
    c.st.add("max_semilegal_moves", maxm as u64);
    // the fixed-capacity list itself: the safe `gen_all_into` API appends, so two positions' moves can be sent into one
    // `MoveList`; totals below, at and above its 256 slots (the checked push must trap, never write past the end)
    {
        let mut by_count: Vec<(usize, &posgen::Pos)> = ps.iter().map(|p| (posgen::semilegal_count(&p.board), p)).collect();
        by_count.sort_by_key(|x| x.0);
        let big: Vec<&(usize, &posgen::Pos)> = by_count.iter().rev().take(12).collect();
        let mut emitted = 0usize;
        for (i, a) in big.iter().enumerate() {
            for b in big.iter().skip(i) {
                if emitted < 40 {
                    c.case("geninto2", &format!("geninto2 {} {}", a.1.raw_text(), b.1.raw_text()));
                    emitted += 1;
                }
            }
        }
        // totals exactly at the boundary: for the largest position, partners with 256 - k, 256 - k ± 1 moves
        if let Some(top) = by_count.last() {
            for want in [256usize.saturating_sub(top.0), 257usize.saturating_sub(top.0), 255usize.saturating_sub(top.0)] {
                if let Some(q) = by_count.iter().find(|x| x.0 == want) {
                    c.case("geninto2", &format!("geninto2 {} {}", top.1.raw_text(), q.1.raw_text()));
                    c.st.bump("geninto2_boundary_pairs");
                }
            }
        }
        for _ in 0..20 {
            let a = c.rng.pick(&by_count).1;
            let b = c.rng.pick(&by_count).1;
            c.case("geninto2", &format!("geninto2 {} {}", a.raw_text(), b.raw_text()));
        }
    }
    // the legality machinery's own small buffers: three and more checkers at once, several pins at once
    for p in posgen::f3_manycheckers().iter().chain(posgen::f3_allpinned().iter().step_by(5)).chain(posgen::f3_crosspin().iter().step_by(9)) {
        c.pos(p);
        let raw = p.raw_text();
        c.case("gen", &format!("gen {} 0 1", raw));
        c.case("outcome", &format!("outcome {}", raw));
        c.case("check", &format!("check {}", raw));
    }
    // the generators' output size asked of board objects that a make / unmake has touched (a promoted queen that is
    // missing from a colour set is transparent: more moves than the position has)
    {
        let mut qs = object_positions(c, 40);
        for p in ps.iter() {
            if qs.len() < 400 && true_legal_moves(&p.board).iter().any(|m| (m.kind() as u8) >= 6) {
                qs.push(p.clone());
            }
        }
        for fen in [
            "7Q/Q1P1PP1Q/1n1Q4/1Q4Q1/4Q3/2Q4Q/Q4Qnq/n2QbKbk w - - 0 1",
            "1Q5Q/P1Q5/3Q4/1Q4Q1/4Q3/2Q4Q/Q4Q1k/3Q1K2 w - - 0 1",
        ] {
            if let Ok(b) = owlchess::Board::from_fen(fen) {
                qs.push(Pos { sent: *b.raw(), board: b, fam: "objects" });
            }
        }
        for p in &qs {
            c.pos(p);
            let raw = p.raw_text();
            object_cases(c, p, "genvec", &format!("genvec {}", raw), 4, 4);
            object_cases(c, p, "gen", &format!("gen {} 0 0", raw), 2, 4);
        }
    }
    // square arithmetic behind the special pawn moves: every (en passant | double step, own pawn, destination) tuple in
    // positions with an en-passant mark is offered to the safe make path — whatever `Move::new` and the semilegality
    // test let through must not compute a victim / passed square off the board
    for p in posgen::f3a(false).iter().step_by(7).take(if c.thorough { 200 } else { 40 }) {
        c.pos(p);
        let raw = p.raw_text();
        let side_white = p.board.side() == owlchess::Color::White;
        let pawn: u8 = if side_white { posgen::WP } else { posgen::BP };
        for s in 0..64u8 {
            if p.board.get(owlchess::Coord::from_index(s as usize)).index() as u8 != pawn {
                continue;
            }
            for d in 0..64u8 {
                for k in [5u8, 4] {
                    c.case("makelike move", &format!("makelike {} move {}", raw, mv4_fmt((k, pawn, s, d))));
                }
            }
        }
    }
    // square arithmetic behind the move readers: every edge-rank pawn move / capture / promotion spelling (SAN and UCI),
    // on and off the ranks where it makes sense, read in a few positions of both colours — a source or victim square
    // computed from such a text must stay on the board (or the text be refused), never trap
    let mut readers: Vec<posgen::Pos> = Vec::new();
    for fen in [
        "rnbqkbnr/pppppppp/8/8/8/8/PPPPPPPP/RNBQKBNR w KQkq - 0 1",
        "rnbqkbnr/pppppppp/8/8/4P3/8/PPPP1PPP/RNBQKBNR b KQkq e3 0 1",
        "r3k2r/1P4P1/8/3pP3/3Pp3/8/1p4p1/R3K2R w KQkq d6 0 1",
        "r3k2r/1P4P1/8/3pP3/3Pp3/8/1p4p1/R3K2R b KQkq d3 0 1",
    ] {
        if let Ok(b) = owlchess::Board::from_fen(fen) {
            readers.push(posgen::Pos { sent: *b.raw(), board: b, fam: "C19-readers" });
        }
    }
    let files = ['a', 'b', 'c', 'd', 'e', 'f', 'g', 'h'];
    for p in &readers {
        c.pos(p);
        let raw = p.raw_text();
        let mut texts: Vec<String> = Vec::new();
        for rank in ['1', '2', '7', '8'] {
            for promo in ["", "=Q", "=N", "R", "=K"] {
                for (i, f) in files.iter().enumerate() {
                    texts.push(format!("{}{}{}", f, rank, promo));
                    for j in [i.wrapping_sub(1), i + 1] {
                        if j < 8 {
                            texts.push(format!("{}x{}{}{}", f, files[j], rank, promo));
                        }
                    }
                }
            }
        }
        for (i, f) in files.iter().enumerate() {
            for j in [i.wrapping_sub(1), i + 1] {
                if j < 8 {
                    for promo in ["", "=Q", "N"] {
                        texts.push(format!("{}{}{}", f, files[j], promo));
                    }
                    for (r1, r2) in [('2', '1'), ('7', '8'), ('1', '2'), ('8', '7'), ('1', '8'), ('8', '1')] {
                        for promo in ["", "q", "n"] {
                            texts.push(format!("{}{}{}{}{}", f, r1, files[j], r2, promo));
                        }
                    }
                }
            }
        }
        for t in &texts {
            c.str_case("saninto", &format!("saninto {} ", raw), t, "");
            c.str_case("uciinto", &format!("uciinto {} ", raw), t, " legal");
        }
    }
    let m = c.vol(20000, 50.0);
    for _ in 0..m {
        let sq = c.rng.usize(64);
        let diag = c.rng.chance(1, 2);
        let o = if c.rng.chance(1, 2) {
            c.rng.next_u64()
        } else {
            random_occ(&mut c.rng, sq, diag)
        };
        let piece = if diag { "b" } else { "r" };
        c.case(
            &format!("atk {}", piece),
            &format!("atk {} {} {:x}", piece, sq, o),
        );
    }
}

fn c20(c: &mut Ctx) {
    for t in [
        "file", "rank", "coord", "piece", "cell", "color", "rights", "geom",
    ] {
        c.case(&format!("conv {}", t), &format!("conv {}", t));
    }
    let sample: [u32; 16] = [0, 7, 9, 14, 18, 21, 27, 28, 35, 36, 42, 45, 49, 54, 56, 63];
    let mut subsets: Vec<u64> = vec![0];
    for i in 0..16 {
        subsets.push(1u64 << sample[i]);
        for j in (i + 1)..16 {
            subsets.push((1u64 << sample[i]) | (1u64 << sample[j]));
            for k in (j + 1)..16 {
                subsets.push((1u64 << sample[i]) | (1u64 << sample[j]) | (1u64 << sample[k]));
            }
        }
    }
    let nb = c.vol(12, 30.0);
    for &a in &subsets {
        for _ in 0..nb {
            let b = if c.rng.chance(4, 5) {
                *c.rng.pick(&subsets)
            } else {
                c.rng.next_u64()
            };
            for op in ["and", "or", "xor", "andassign", "orassign", "xorassign"] {
                c.case(&format!("bb {}", op), &format!("bb {} {:x} {:x}", op, a, b));
            }
        }
    }
    let mut unary: Vec<u64> = subsets.clone();
    unary.push(u64::MAX);
    for _ in 0..c.vol(300, 10.0) {
        let x = match c.rng.usize(3) {
            0 => c.rng.next_u64(),
            1 => c.rng.next_u64() & c.rng.next_u64() & c.rng.next_u64(),
            _ => c.rng.next_u64() | c.rng.next_u64(),
        };
        unary.push(x);
    }
    for &a in &unary {
        for op in ["not", "len", "iter", "fliprank", "flipfile"] {
            c.case(&format!("bb {}", op), &format!("bb {} {:x}", op, a));
        }
    }
    for _ in 0..c.vol(60, 10.0) {
        let a = if c.rng.chance(1, 2) {
            *c.rng.pick(&subsets)
        } else {
            c.rng.next_u64()
        };
        for sq in 0..64 {
            for op in ["with", "without", "has"] {
                c.case(&format!("bb {}", op), &format!("bb {} {:x} {}", op, a, sq));
            }
        }
    }
    for _ in 0..c.vol(200, 10.0) {
        let a = if c.rng.chance(1, 2) {
            *c.rng.pick(&unary)
        } else {
            c.rng.next_u64()
        };
        for n in [0, 1, 7, 8, 9, 31, 32, 63] {
            c.case("bb shl", &format!("bb shl {:x} {}", a, n));
            c.case("bb shr", &format!("bb shr {:x} {}", a, n));
        }
        let n = c.rng.usize(64);
        c.case("bb shl", &format!("bb shl {:x} {}", a, n));
        c.case("bb shr", &format!("bb shr {:x} {}", a, n));
    }
    for _ in 0..c.vol(3000, 10.0) {
        let mask = match c.rng.usize(4) {
            0 => c.rng.next_u64(),
            1 => c.rng.next_u64() & c.rng.next_u64() & c.rng.next_u64(),
            2 => *c.rng.pick(&subsets),
            _ => ray_mask(c.rng.usize(64), c.rng.chance(1, 2)),
        };
        let x = match c.rng.usize(3) {
            0 => c.rng.next_u64(),
            1 => c.rng.below(1 << 12),
            _ => c.rng.below(256),
        };
        c.case("bb deposit", &format!("bb deposit {:x} {:x}", mask, x));
    }
    // full and nearly full masks (the library itself only deposits into masks of at most 12 squares)
    for _ in 0..200 {
        let mut mask = u64::MAX;
        for _ in 0..c.rng.usize(4) {
            mask &= !(1u64 << c.rng.usize(64));
        }
        let x = match c.rng.usize(3) {
            0 => c.rng.next_u64(),
            1 => c.rng.below(1 << 12),
            _ => c.rng.below(4),
        };
        c.case("bb deposit", &format!("bb deposit {:x} {:x}", mask, x));
    }
    // from_char of the base types on all code points below U+0300 and a sample above
    for ty in ["file", "rank", "cell", "color"] {
        for cp in 0u32..0x300 {
            c.case("fromchar", &format!("fromchar {} {}", ty, cp));
        }
        for base in [0x2100u32, 0x1F600, 0xFF00, 0x0400, 0x4E00] {
            for d in 0u32..0x100 {
                c.case("fromchar", &format!("fromchar {} {}", ty, base + d));
            }
        }
    }
    c.case("bb deposit", "bb deposit 0 ffffffffffffffff");
    c.case("bb deposit", "bb deposit ffffffffffffffff ffffffffffffffff");
    c.case("bb deposit", "bb deposit ffffffffffffffff 0");
    c.case("bb const", "bb const");
    for sq in 0..64 {
        c.case("bb sq", &format!("bb sq {}", sq));
    }
    for sq in 0..64 {
        for df in -7..=7 {
            for dr in -7..=7 {
                c.case("bb shift", &format!("bb shift {} {} {}", sq, df, dr));
            }
        }
    }
    for sq in 0..64 {
        for d in [-9, -8, -7, -1, 1, 7, 8, 9, 16, -16] {
            c.case("bb add", &format!("bb add {} {}", sq, d));
        }
    }
    let short = strgen::short_1_2();
    for s in &short {
        for ty in ["coord", "cell", "color", "rights"] {
            c.st.string(s);
            c.case(
                &format!("parse {}", ty),
                &format!("parse {} {}", ty, str_enc(s)),
            );
        }
    }
    for s in ["", "KQkq", "KQk", "kqKQ", "KQkqq", "\u{e9}", "a\u{e9}", "\u{20ac}"] {
        for ty in ["coord", "cell", "color", "rights"] {
            c.st.string(s);
            c.case(
                &format!("parse {}", ty),
                &format!("parse {} {}", ty, str_enc(s)),
            );
        }
    }
    let _ = Cell::EMPTY;
}

pub const PROPS: [&str; 20] = [
    "C01", "C02", "C03", "C04", "C05", "C06", "C07", "C08", "C09", "C10", "C11", "C12", "C13",
    "C14", "C15", "C16", "C17", "C18", "C19", "C20",
];

pub fn generate(
    prop: &str,
    thorough: bool,
    seed: u64,
    scale: f64,
    out: &str,
    stats: &str,
) -> Result<u64, String> {
    let f = File::create(out).map_err(|e| format!("{}: {}", out, e))?;
    let mut c = Ctx {
        rng: Rng::new(seed),
        w: BufWriter::with_capacity(1 << 20, f),
        st: Stats::default(),
        thorough,
        scale,
        pool: posgen::PosPool::new(),
    };
    c.st.prop = prop.to_string();
    c.st.tier = if thorough { "thorough" } else { "quick" }.to_string();
    c.st.seed = seed;
    c.st.scale = scale;
    match prop {
        "C01" => c01(&mut c),
        "C02" => c02(&mut c),
        "C03" => c03(&mut c),
        "C04" => c04(&mut c),
        "C05" => c05(&mut c),
        "C06" => c06(&mut c),
        "C07" => c07(&mut c),
        "C08" => c08(&mut c),
        "C09" => c09(&mut c),
        "C10" => c10(&mut c),
        "C11" => c11(&mut c),
        "C12" => c12(&mut c),
        "C13" => c13(&mut c),
        "C14" => c14(&mut c),
        "C15" => c15(&mut c),
        "C16" => c16(&mut c),
        "C17" => c17(&mut c),
        "C18" => c18(&mut c),
        "C19" => c19(&mut c),
        "C20" => c20(&mut c),
        _ => return Err(format!("unknown property {}", prop)),
    }
    c.w.flush().map_err(|e| e.to_string())?;
    std::fs::write(stats, c.st.to_json()).map_err(|e| format!("{}: {}", stats, e))?;
    Ok(c.st.total)
}

// ------------------------------------------------------------------ debugging aid

pub fn debug_f3(full: bool) {
    let mut rng = Rng::new(1);
    let all = posgen::f3_all(&mut rng, full);
    let mut fam: BTreeMap<&str, usize> = BTreeMap::new();
    for p in &all.pos {
        *fam.entry(p.fam).or_insert(0) += 1;
    }
    println!("families: {:?}", fam);
    println!("dropped FENs: {:?}", all.dropped_fens);
    let mut chk: BTreeMap<u32, usize> = BTreeMap::new();
    for p in all.pos.iter().filter(|p| p.fam == "F3c") {
        *chk.entry(p.board.checkers().len()).or_insert(0) += 1;
    }
    println!("F3c checkers histogram: {:?}", chk);
    for p in all.pos.iter().filter(|p| p.fam == "F3f") {
        let sl = semis(&p.board).len();
        let ll = true_legal_moves(&p.board).len();
        println!(
            "F3f {:<60} semilegal={:3} legal={:3} {}",
            p.board.to_string(),
            sl,
            ll,
            crate::ops::outcome_fmt(&p.board)
        );
    }
    for p in all.pos.iter().filter(|p| p.fam == "F3h") {
        println!(
            "F3h {:<60} semilegal={}",
            p.board.to_string(),
            posgen::semilegal_count(&p.board)
        );
    }
    let d1 = all
        .pos
        .iter()
        .filter(|p| {
            p.fam == "F3a"
                && owlchess::movegen::legal::gen_all(&p.board).len()
                    != true_legal_moves(&p.board).len()
        })
        .count();
    println!("F3a positions where legal::gen_all disagrees with validate: {}", d1);
    let mut f1chk = 0;
    let mut f1ep = 0;
    let mut f1r = 0;
    let n = 5000;
    for _ in 0..n {
        let p = posgen::f1(&mut rng);
        if p.board.is_check() {
            f1chk += 1;
        }
        if p.board.raw().ep_source.is_some() {
            f1ep += 1;
        }
        if p.board.raw().castling.index() != 0 {
            f1r += 1;
        }
    }
    println!(
        "F1 (n={}): in check {}, with ep {}, with rights {}",
        n, f1chk, f1ep, f1r
    );
}

// ------------------------------------------------------------------ self-test

fn op_key(line: &str) -> String {
    let mut it = line.split(' ');
    let op = it.next().unwrap_or("");
    match op {
        "makelike" => {
            let t: Vec<&str> = line.split(' ').collect();
            format!("makelike {}", t.get(7).unwrap_or(&"?"))
        }
        "bb" | "conv" | "parse" | "atk" => format!("{} {}", op, it.next().unwrap_or("")),
        "uciinto" => {
            let t: Vec<&str> = line.split(' ').collect();
            format!("uciinto {}", t.get(8).unwrap_or(&"?"))
        }
        _ => op.to_string(),
    }
}

fn describe_case(line: &str) -> String {
    // decode STR tokens for readability
    let mut out: Vec<String> = Vec::new();
    for t in line.split(' ') {
        if t.len() <= 200 && t.starts_with('x') && t.len() % 2 == 1 {
            if let Some(s) = codec::str_dec(t) {
                out.push(format!("{:?}", s));
                continue;
            }
        }
        if t.len() > 200 {
            out.push(format!("<{} chars>", t.len()));
        } else {
            out.push(t.to_string());
        }
    }
    out.join(" ")
}

const D1_GEN_CASE: &str =
    "gen ........................K..Pp..r...............................k w 0 28 0 1 0 1";

#[derive(Default)]
struct Tally {
    total: u64,
    panic: u64,
    badop: u64,
    invalid: u64,
    na: u64,
    badarg: u64,
    err: u64,
    chain_step_panics: u64,
    chain_badstep: u64,
}

pub fn selftest(keep: Option<&str>, thorough: bool, scale: f64) -> bool {
    let dir = match keep {
        Some(d) => d.to_string(),
        None => {
            let exe = std::env::current_exe().ok();
            let base = exe
                .as_ref()
                .and_then(|p| p.parent())
                .map(|p| p.join("selftest"))
                .unwrap_or_else(|| std::path::PathBuf::from("selftest"));
            base.to_string_lossy().to_string()
        }
    };
    let _ = std::fs::create_dir_all(&dir);
    let mut ok = true;
    let mut panics_seen: BTreeMap<String, Vec<String>> = BTreeMap::new();
    let mut notes: Vec<String> = Vec::new();
    println!(
        "{:<5} {:>9} {:>10} {:>8} {:>8}  per-op: total/panic/badop/invalid/n-a/badarg",
        "prop", "cases", "MB(cases)", "gen(s)", "run(s)"
    );
    for prop in PROPS {
        let cases = format!("{}/{}.cases.txt", dir, prop);
        let stats = format!("{}/{}.stats.json", dir, prop);
        let t0 = Instant::now();
        let n = match generate(prop, thorough, 1, scale, &cases, &stats) {
            Ok(n) => n,
            Err(e) => {
                println!("{}: generation failed: {}", prop, e);
                ok = false;
                continue;
            }
        };
        let tg = t0.elapsed().as_secs_f64();
        let bytes = std::fs::metadata(&cases).map(|m| m.len()).unwrap_or(0);
        let mut tr = 0.0f64;
        let mut impl_w = if keep.is_some() {
            Some(BufWriter::with_capacity(
                1 << 20,
                File::create(format!("{}/{}.impl.txt", dir, prop)).unwrap(),
            ))
        } else {
            None
        };
        let mut tally: BTreeMap<String, Tally> = BTreeMap::new();
        let mut d1_note: Option<bool> = None;
        let reader = std::io::BufReader::with_capacity(1 << 20, File::open(&cases).unwrap());
        let mut block: Vec<String> = Vec::new();
        let mut it = std::io::BufRead::lines(reader);
        loop {
            block.clear();
            for l in it.by_ref() {
                block.push(l.unwrap());
                if block.len() >= 300_000 {
                    break;
                }
            }
            if block.is_empty() {
                break;
            }
            let lines = &block;
            let t1 = Instant::now();
            let answers = crate::run_cases(lines);
            tr += t1.elapsed().as_secs_f64();
            if let Some(w) = impl_w.as_mut() {
                for a in &answers {
                    let _ = writeln!(w, "{}", a);
                }
            }
            for (l, a) in lines.iter().zip(answers.iter()) {
                let k = op_key(l);
                let t = tally.entry(k.clone()).or_default();
                t.total += 1;
                if a == "panic" {
                    t.panic += 1;
                    let v = panics_seen.entry(k.clone()).or_default();
                    if v.len() < 400 {
                        v.push(describe_case(l));
                    }
                } else if a == "badop" {
                    t.badop += 1;
                    ok = false;
                } else if a == "invalid" {
                    t.invalid += 1;
                } else if a == "n/a" {
                    t.na += 1;
                } else if a == "badarg" {
                    t.badarg += 1;
                    ok = false;
                } else if a.starts_with("err:") {
                    t.err += 1;
                }
                if k == "chain" {
                    let mut any = false;
                    for o in a.split(';') {
                        if o == "panic" {
                            t.chain_step_panics += 1;
                            any = true;
                        } else if o == "badstep" {
                            t.chain_badstep += 1;
                            ok = false;
                        }
                    }
                    if any {
                        // find the steps that panicked
                        let steps: Vec<&str> = l.split(" ; ").skip(1).collect();
                        for (s, o) in steps.iter().zip(a.split(';')) {
                            if o == "panic" {
                                let v = panics_seen.entry("chain-step".to_string()).or_default();
                                if v.len() < 400 {
                                    let head: Vec<&str> = l.split(' ').skip(1).take(6).collect();
                                    v.push(format!(
                                        "{} @ start mc={} mn={}",
                                        describe_case(s),
                                        head.get(4).unwrap_or(&"?"),
                                        head.get(5).unwrap_or(&"?")
                                    ));
                                }
                            }
                        }
                    }
                }
                if prop == "C01" && l == D1_GEN_CASE {
                    d1_note = Some(a.split(',').any(|m| m == "5.1.27.20"));
                }
            }
        }
        if let Some(w) = impl_w.as_mut() {
            let _ = w.flush();
        }
        if keep.is_none() {
            let _ = std::fs::remove_file(&cases);
            let _ = std::fs::remove_file(&stats);
        }
        let mut parts: Vec<String> = Vec::new();
        for (k, t) in &tally {
            let mut s = format!(
                "{}={}/{}/{}/{}/{}/{}",
                k, t.total, t.panic, t.badop, t.invalid, t.na, t.badarg
            );
            if k == "chain" {
                s.push_str(&format!(
                    "(step-panics={},badstep={})",
                    t.chain_step_panics, t.chain_badstep
                ));
            }
            parts.push(s);
        }
        println!(
            "{:<5} {:>9} {:>10.1} {:>8.2} {:>8.2}  {}",
            prop,
            n,
            bytes as f64 / 1e6,
            tg,
            tr,
            parts.join(" ")
        );
        // targeted expectations
        if prop == "C01" {
            match d1_note {
                Some(has) => notes.push(format!(
                    "C01: known defect position present; legal gen_all contains d5e6 (5.1.27.20): {}",
                    has
                )),
                None => {
                    notes.push("C01: known defect position MISSING from F3a".to_string());
                    ok = false;
                }
            }
        }
    }
    println!();
    println!("panicking inputs (distinct, per op; first few):");
    for (k, v) in &panics_seen {
        let mut d: Vec<String> = Vec::new();
        for x in v {
            // for position-taking ops show only the payload and the clocks
            let t: Vec<&str> = x.split(' ').collect();
            let short = if t.len() >= 8 && t[1].len() == 64 {
                format!("mc={} mn={} {}", t[5], t[6], t[7..].join(" "))
            } else {
                x.clone()
            };
            if !d.contains(&short) {
                d.push(short);
            }
        }
        println!("  {} ({} recorded): {}", k, v.len(), d.iter().take(12).cloned().collect::<Vec<_>>().join(" | "));
    }
    for n in &notes {
        println!("{}", n);
    }
    println!("selftest {}", if ok { "OK" } else { "FAILED" });
    ok
}
