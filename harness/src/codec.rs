//! Canonical text encodings of PROTOCOL.md

use owlchess::board::{
    CellsParseError, FenParseError, RawFenParseError, ValidateError as BoardValidateError,
};
use owlchess::moves::{san, uci, CreateError, Move, MoveKind, PromotePiece, ValidateError};
use owlchess::types::{
    CastlingRights, CastlingRightsParseError, Cell, CellParseError, Color, ColorParseError, Coord,
    CoordParseError, DrawReason, Outcome, WinReason,
};
use owlchess::{verif, Board, RawBoard};
use std::fmt::Write;

pub const CELL_CHARS: &[u8; 13] = b".PKNBRQpknbrq";

pub fn hex(x: u64) -> String {
    format!("{:x}", x)
}

pub fn str_enc(s: &str) -> String {
    bytes_enc(s.as_bytes())
}

pub fn bytes_enc(b: &[u8]) -> String {
    let mut r = String::with_capacity(1 + 2 * b.len());
    r.push('x');
    for &c in b {
        r.push(char::from_digit((c >> 4) as u32, 16).unwrap());
        r.push(char::from_digit((c & 15) as u32, 16).unwrap());
    }
    r
}

/// Decodes STR; `None` if the token is malformed or the bytes are not UTF-8.
pub fn str_dec(t: &str) -> Option<String> {
    let t = t.strip_prefix('x')?;
    let tb = t.as_bytes();
    if tb.len() % 2 != 0 {
        return None;
    }
    let mut out = Vec::with_capacity(tb.len() / 2);
    for ch in tb.chunks(2) {
        let h = (ch[0] as char).to_digit(16)?;
        let l = (ch[1] as char).to_digit(16)?;
        if (ch[0] as char).is_ascii_uppercase() || (ch[1] as char).is_ascii_uppercase() {
            return None;
        }
        out.push((h * 16 + l) as u8);
    }
    String::from_utf8(out).ok()
}

pub fn bbx_dec(t: &str) -> Option<u64> {
    if t.is_empty() || t.len() > 16 {
        return None;
    }
    u64::from_str_radix(t, 16).ok()
}

pub fn color_ch(c: Color) -> char {
    match c {
        Color::White => 'w',
        Color::Black => 'b',
    }
}

pub fn kind_from(k: u8) -> Option<MoveKind> {
    Some(match k {
        0 => MoveKind::Null,
        1 => MoveKind::Simple,
        2 => MoveKind::CastlingKingside,
        3 => MoveKind::CastlingQueenside,
        4 => MoveKind::PawnDouble,
        5 => MoveKind::Enpassant,
        6 => MoveKind::PromoteKnight,
        7 => MoveKind::PromoteBishop,
        8 => MoveKind::PromoteRook,
        9 => MoveKind::PromoteQueen,
        _ => return None,
    })
}

/// Move tuple `(k, c, s, d)`
pub type Mv4 = (u8, u8, u8, u8);

pub fn mv4_of(m: &Move) -> Mv4 {
    (
        m.kind() as u8,
        m.src_cell().index() as u8,
        m.src().index() as u8,
        m.dst().index() as u8,
    )
}

pub fn mv4_fmt(t: Mv4) -> String {
    format!("{}.{}.{}.{}", t.0, t.1, t.2, t.3)
}

pub fn mv_fmt(m: &Move) -> String {
    mv4_fmt(mv4_of(m))
}

pub fn mv4_parse(t: &str) -> Option<Mv4> {
    let mut it = t.split('.');
    let k: u8 = it.next()?.parse().ok()?;
    let c: u8 = it.next()?.parse().ok()?;
    let s: u8 = it.next()?.parse().ok()?;
    let d: u8 = it.next()?.parse().ok()?;
    if it.next().is_some() || k > 9 || c > 12 || s > 63 || d > 63 {
        return None;
    }
    Some((k, c, s, d))
}

pub fn mv4_new(t: Mv4) -> Result<Move, CreateError> {
    Move::new(
        kind_from(t.0).unwrap(),
        Cell::from_index(t.1 as usize),
        Coord::from_index(t.2 as usize),
        Coord::from_index(t.3 as usize),
    )
}

/// # Safety
/// Only for moves that are only formatted / inspected, or known to be well-formed.
pub unsafe fn mv4_new_unchecked(t: Mv4) -> Move {
    Move::new_unchecked(
        kind_from(t.0).unwrap(),
        Cell::from_index(t.1 as usize),
        Coord::from_index(t.2 as usize),
        Coord::from_index(t.3 as usize),
    )
}

pub fn mvs_fmt_tuples(mut v: Vec<Mv4>) -> String {
    if v.is_empty() {
        return "-".to_string();
    }
    v.sort_unstable();
    let mut r = String::with_capacity(v.len() * 12);
    for (i, t) in v.iter().enumerate() {
        if i != 0 {
            r.push(',');
        }
        let _ = write!(r, "{}.{}.{}.{}", t.0, t.1, t.2, t.3);
    }
    r
}

pub fn mvs_fmt<'a, I: IntoIterator<Item = &'a Move>>(it: I) -> String {
    mvs_fmt_tuples(it.into_iter().map(mv4_of).collect())
}

// ---------------------------------------------------------------- RAW / FULL

pub fn raw_fmt(r: &RawBoard) -> String {
    let mut s = String::with_capacity(96);
    for c in r.cells.iter() {
        s.push(CELL_CHARS[c.index()] as char);
    }
    s.push(' ');
    s.push(color_ch(r.side));
    let _ = write!(s, " {} ", r.castling.index());
    match r.ep_source {
        Some(p) => {
            let _ = write!(s, "{}", p.index());
        }
        None => s.push('-'),
    }
    let _ = write!(s, " {} {}", r.move_counter, r.move_number);
    s
}

/// Parses exactly 6 RAW tokens
pub fn raw_parse(t: &[&str]) -> Option<RawBoard> {
    if t.len() != 6 {
        return None;
    }
    let cb = t[0].as_bytes();
    if cb.len() != 64 {
        return None;
    }
    let mut cells = [Cell::EMPTY; 64];
    for (i, &ch) in cb.iter().enumerate() {
        let idx = CELL_CHARS.iter().position(|&x| x == ch)?;
        cells[i] = Cell::from_index(idx);
    }
    let side = match t[1] {
        "w" => Color::White,
        "b" => Color::Black,
        _ => return None,
    };
    let rights: usize = t[2].parse().ok()?;
    if rights > 15 {
        return None;
    }
    let ep_source = if t[3] == "-" {
        None
    } else {
        let e: usize = t[3].parse().ok()?;
        if e > 63 {
            return None;
        }
        Some(Coord::from_index(e))
    };
    let move_counter: u16 = t[4].parse().ok()?;
    let move_number: u16 = t[5].parse().ok()?;
    Some(RawBoard {
        cells,
        side,
        castling: CastlingRights::from_index(rights),
        ep_source,
        move_counter,
        move_number,
    })
}

pub fn full_fmt(b: &Board) -> String {
    let mut s = raw_fmt(b.raw());
    let _ = write!(
        s,
        " {:x} {:x} {:x} {:x}",
        b.zobrist_hash(),
        b.color(Color::White).as_raw(),
        b.color(Color::Black).as_raw(),
        verif::board_all(b).as_raw()
    );
    for i in 0..13 {
        let _ = write!(s, " {:x}", b.piece(Cell::from_index(i)).as_raw());
    }
    s
}

pub fn underscored(s: &str) -> String {
    s.replace(' ', "_")
}

// ---------------------------------------------------------------- OUT

pub fn win_reason_name(r: WinReason) -> &'static str {
    match r {
        WinReason::Checkmate => "Checkmate",
        WinReason::TimeForfeit => "TimeForfeit",
        WinReason::InvalidMove => "InvalidMove",
        WinReason::EngineError => "EngineError",
        WinReason::Resign => "Resign",
        WinReason::Abandon => "Abandon",
        WinReason::Unknown => "Unknown",
        _ => "?",
    }
}

pub fn draw_reason_name(r: DrawReason) -> &'static str {
    match r {
        DrawReason::Stalemate => "Stalemate",
        DrawReason::InsufficientMaterial => "InsufficientMaterial",
        DrawReason::Moves75 => "Moves75",
        DrawReason::Repeat5 => "Repeat5",
        DrawReason::Moves50 => "Moves50",
        DrawReason::Repeat3 => "Repeat3",
        DrawReason::Agreement => "Agreement",
        DrawReason::Unknown => "Unknown",
        _ => "?",
    }
}

pub const WIN_REASONS: [WinReason; 7] = [
    WinReason::Checkmate,
    WinReason::TimeForfeit,
    WinReason::InvalidMove,
    WinReason::EngineError,
    WinReason::Resign,
    WinReason::Abandon,
    WinReason::Unknown,
];

pub const DRAW_REASONS: [DrawReason; 8] = [
    DrawReason::Stalemate,
    DrawReason::InsufficientMaterial,
    DrawReason::Moves75,
    DrawReason::Repeat5,
    DrawReason::Moves50,
    DrawReason::Repeat3,
    DrawReason::Agreement,
    DrawReason::Unknown,
];

pub fn out_fmt(o: &Option<Outcome>) -> String {
    match o {
        None => "none".to_string(),
        Some(Outcome::Win { side, reason }) => {
            format!("win:{}:{}", color_ch(*side), win_reason_name(*reason))
        }
        Some(Outcome::Draw(r)) => format!("draw:{}", draw_reason_name(*r)),
    }
}

pub fn draw_opt_fmt(o: &Option<DrawReason>) -> String {
    match o {
        None => "none".to_string(),
        Some(r) => draw_reason_name(*r).to_string(),
    }
}

/// `Some(None)` for `none`
pub fn out_parse(t: &str) -> Option<Option<Outcome>> {
    if t == "none" {
        return Some(None);
    }
    if let Some(r) = t.strip_prefix("draw:") {
        let d = DRAW_REASONS.iter().find(|x| draw_reason_name(**x) == r)?;
        return Some(Some(Outcome::Draw(*d)));
    }
    if let Some(r) = t.strip_prefix("win:") {
        let (c, r) = r.split_once(':')?;
        let side = match c {
            "w" => Color::White,
            "b" => Color::Black,
            _ => return None,
        };
        let w = WIN_REASONS.iter().find(|x| win_reason_name(**x) == r)?;
        return Some(Some(Outcome::Win {
            side,
            reason: *w,
        }));
    }
    None
}

// ---------------------------------------------------------------- errors

fn ch(c: char) -> u32 {
    c as u32
}

pub fn e_board_validate(e: &BoardValidateError) -> String {
    match e {
        BoardValidateError::InvalidEnpassant(c) => format!("InvalidEnpassant({})", c.index()),
        BoardValidateError::TooManyPieces(c) => format!("TooManyPieces({})", color_ch(*c)),
        BoardValidateError::NoKing(c) => format!("NoKing({})", color_ch(*c)),
        BoardValidateError::TooManyKings(c) => format!("TooManyKings({})", color_ch(*c)),
        BoardValidateError::InvalidPawn(c) => format!("InvalidPawn({})", c.index()),
        BoardValidateError::OpponentKingAttacked => "OpponentKingAttacked".to_string(),
    }
}

pub fn e_mv_validate(e: &ValidateError) -> &'static str {
    match e {
        ValidateError::NotSemiLegal => "NotSemiLegal",
        ValidateError::NotLegal => "NotLegal",
    }
}

pub fn e_create(e: &CreateError) -> &'static str {
    match e {
        CreateError::NotWellFormed => "NotWellFormed",
    }
}

pub fn e_coord(e: &CoordParseError) -> String {
    match e {
        CoordParseError::BadLength => "BadLength".to_string(),
        CoordParseError::UnexpectedFileChar(c) => format!("UnexpectedFileChar({})", ch(*c)),
        CoordParseError::UnexpectedRankChar(c) => format!("UnexpectedRankChar({})", ch(*c)),
    }
}

pub fn e_cell(e: &CellParseError) -> String {
    match e {
        CellParseError::BadLength => "BadLength".to_string(),
        CellParseError::UnexpectedChar(c) => format!("UnexpectedChar({})", ch(*c)),
    }
}

pub fn e_color(e: &ColorParseError) -> String {
    match e {
        ColorParseError::BadLength => "BadLength".to_string(),
        ColorParseError::UnexpectedChar(c) => format!("UnexpectedChar({})", ch(*c)),
    }
}

pub fn e_rights(e: &CastlingRightsParseError) -> String {
    match e {
        CastlingRightsParseError::UnexpectedChar(c) => format!("UnexpectedChar({})", ch(*c)),
        CastlingRightsParseError::DuplicateChar(c) => format!("DuplicateChar({})", ch(*c)),
        CastlingRightsParseError::EmptyString => "EmptyString".to_string(),
    }
}

pub fn e_cells(e: &CellsParseError) -> String {
    match e {
        CellsParseError::RankOverflow(r) => format!("RankOverflow({})", r.index()),
        CellsParseError::RankUnderflow(r) => format!("RankUnderflow({})", r.index()),
        CellsParseError::Overflow => "Overflow".to_string(),
        CellsParseError::Underflow => "Underflow".to_string(),
        CellsParseError::UnexpectedChar(c) => format!("UnexpectedChar({})", ch(*c)),
    }
}

pub fn e_raw_fen(e: &RawFenParseError) -> String {
    match e {
        RawFenParseError::NonAscii => "NonAscii".to_string(),
        RawFenParseError::NoBoard => "NoBoard".to_string(),
        RawFenParseError::Board(x) => format!("Board:{}", e_cells(x)),
        RawFenParseError::NoMoveSide => "NoMoveSide".to_string(),
        RawFenParseError::MoveSide(x) => format!("MoveSide:{}", e_color(x)),
        RawFenParseError::NoCastling => "NoCastling".to_string(),
        RawFenParseError::Castling(x) => format!("Castling:{}", e_rights(x)),
        RawFenParseError::NoEnpassant => "NoEnpassant".to_string(),
        RawFenParseError::Enpassant(x) => format!("Enpassant:{}", e_coord(x)),
        RawFenParseError::InvalidEnpassantRank(r) => {
            format!("InvalidEnpassantRank({})", r.index())
        }
        RawFenParseError::MoveCounter(_) => "MoveCounter".to_string(),
        RawFenParseError::MoveNumber(_) => "MoveNumber".to_string(),
        RawFenParseError::ExtraData => "ExtraData".to_string(),
    }
}

pub fn e_fen(e: &FenParseError) -> String {
    match e {
        FenParseError::Fen(x) => format!("Fen:{}", e_raw_fen(x)),
        FenParseError::Valid(x) => format!("Valid:{}", e_board_validate(x)),
    }
}

pub fn e_uci_raw(e: &uci::RawParseError) -> String {
    match e {
        uci::RawParseError::BadLength => "BadLength".to_string(),
        uci::RawParseError::BadSrc(x) => format!("BadSrc:{}", e_coord(x)),
        uci::RawParseError::BadDst(x) => format!("BadDst:{}", e_coord(x)),
        uci::RawParseError::BadPromote(c) => format!("BadPromote({})", ch(*c)),
    }
}

pub fn e_uci_basic(e: &uci::BasicParseError) -> String {
    match e {
        uci::BasicParseError::Parse(x) => format!("Parse:{}", e_uci_raw(x)),
        uci::BasicParseError::Create(x) => format!("Create:{}", e_create(x)),
    }
}

pub fn e_uci(e: &uci::ParseError) -> String {
    match e {
        uci::ParseError::Parse(x) => format!("Parse:{}", e_uci_raw(x)),
        uci::ParseError::Create(x) => format!("Create:{}", e_create(x)),
        uci::ParseError::Validate(x) => format!("Validate:{}", e_mv_validate(x)),
    }
}

pub fn e_san_raw(e: &san::RawParseError) -> String {
    match e {
        san::RawParseError::EmptyString => "EmptyString".to_string(),
        san::RawParseError::InvalidDst(x) => format!("InvalidDst:{}", e_coord(x)),
        san::RawParseError::NonPawnMoveTooLong => "NonPawnMoveTooLong".to_string(),
        san::RawParseError::PawnMoveTooShort => "PawnMoveTooShort".to_string(),
        san::RawParseError::PawnMoveTooLong => "PawnMoveTooLong".to_string(),
        san::RawParseError::Syntax => "Syntax".to_string(),
    }
}

pub fn e_san_into(e: &san::IntoMoveError) -> String {
    match e {
        san::IntoMoveError::Create(x) => format!("Create:{}", e_create(x)),
        san::IntoMoveError::Validate(x) => format!("Validate:{}", e_mv_validate(x)),
        san::IntoMoveError::CaptureExpected => "CaptureExpected".to_string(),
        san::IntoMoveError::NotFound => "NotFound".to_string(),
        san::IntoMoveError::Ambiguity(_, _) => "Ambiguity".to_string(),
    }
}

pub fn e_san(e: &san::ParseError) -> String {
    match e {
        san::ParseError::Parse(x) => format!("Parse:{}", e_san_raw(x)),
        san::ParseError::Convert(x) => format!("Convert:{}", e_san_into(x)),
    }
}

pub fn promote_code(p: Option<PromotePiece>) -> u8 {
    match p {
        None => 0,
        Some(PromotePiece::Knight) => 2,
        Some(PromotePiece::Bishop) => 3,
        Some(PromotePiece::Rook) => 4,
        Some(PromotePiece::Queen) => 5,
    }
}

pub fn uci_move_fmt(m: &uci::Move) -> String {
    match m {
        uci::Move::Null => "null".to_string(),
        uci::Move::Move { src, dst, promote } => {
            format!("{}.{}.{}", src.index(), dst.index(), promote_code(*promote))
        }
    }
}

// ---------------------------------------------------------------- FEN <-> RAW helpers

pub fn fen_to_raw(fen: &str) -> Option<RawBoard> {
    use std::str::FromStr;
    RawBoard::from_str(fen).ok()
}
