#!/usr/bin/env python3
"""Orchestration of one property check (see DESIGN.md §3, §8).

  ./check Cxx [--tier quick|thorough] [--replay FILE]

Steps: rebuild harness from /repo's working tree (feature verif) -> find OUT_DIR -> translate tables and
constants into lean/OwlModel/Gen -> lake build (driver, property theorems) -> axiom audit -> generate cases
-> run the real library (impl stream) -> run the Lean driver (model stream + oracle verdicts) -> compare ->
evidence/<id>.json, VIOLATION / KNOWN-FINDING lines, exit code.
"""
import argparse, fcntl, hashlib, json, os, re, subprocess, sys, time

VERIF = os.path.dirname(os.path.dirname(os.path.abspath(__file__)))
REPO = os.environ.get("VERIF_REPO", "/repo")
HARNESS = os.path.join(VERIF, "harness")
LEAN = os.environ.get("VERIF_LEAN_DIR", os.path.join(VERIF, "lean"))
GEN = os.path.join(LEAN, "OwlModel", "Gen")
WORK = os.path.join(VERIF, "work")
ALLOWED_AXIOMS = {"propext", "Quot.sound", "Classical.choice"}

sys.path.insert(0, os.path.join(VERIF, "tools"))
from props import PROPS  # noqa: E402


def log(msg):
    print(f"[check] {msg}", file=sys.stderr, flush=True)


def run(cmd, cwd=None, env=None, timeout=None, capture=True):
    e = dict(os.environ)
    e["CARGO_NET_OFFLINE"] = "true"
    if env:
        e.update(env)
    p = subprocess.run(cmd, cwd=cwd, env=e, timeout=timeout, text=True,
                       stdout=subprocess.PIPE if capture else None, stderr=subprocess.PIPE if capture else None)
    return p


class Lock:
    def __init__(self, name):
        os.makedirs(WORK, exist_ok=True)
        self.path = os.path.join(WORK, name + ".lock")

    def __enter__(self):
        self.f = open(self.path, "w")
        fcntl.flock(self.f, fcntl.LOCK_EX)
        return self

    def __exit__(self, *a):
        fcntl.flock(self.f, fcntl.LOCK_UN)
        self.f.close()


def build_harness(release=False):
    """cargo build of the harness against /repo's working tree; returns (binary, OUT_DIR of owlchess)"""
    cmd = ["cargo", "build", "--offline", "--message-format=json"]
    if release:
        cmd.append("--release")
    p = run(cmd, cwd=HARNESS, timeout=1200)
    out_dir = None
    for line in p.stdout.splitlines():
        try:
            m = json.loads(line)
        except ValueError:
            continue
        if m.get("reason") == "build-script-executed" and re.search(r"[/#]owlchess[@#]|owlchess ", m.get("package_id", "")) \
                and "owlchess_base" not in m.get("package_id", "").split("#")[-1]:
            out_dir = m.get("out_dir")
    if p.returncode != 0:
        msgs = []
        for line in p.stdout.splitlines():
            try:
                m = json.loads(line)
            except ValueError:
                continue
            if m.get("reason") == "compiler-message" and m["message"].get("level") == "error":
                msgs.append(m["message"].get("rendered", ""))
        raise RuntimeError("harness build failed (does /repo still compile?):\n" + "\n".join(msgs[:5]) + p.stderr[-2000:])
    binary = os.path.join(HARNESS, "target", "release" if release else "debug", "owl-harness")
    if out_dir is None or not os.path.isdir(out_dir):
        raise RuntimeError("could not determine OUT_DIR of owlchess")
    return binary, out_dir


def build_harness_config():
    """second build configuration of the same harness: optimised (`--release`: no debug assertions, no overflow checks,
    no unsafe-precondition checks) and, when the nightly toolchain is present, instrumented with AddressSanitizer so that an
    out-of-bounds read or write of the unchecked internals is a report instead of silent corruption.
    Returns (binary, label) or (None, reason)."""
    tdir = os.path.join(HARNESS, "target", "cfg")
    env = {"CARGO_TARGET_DIR": tdir}
    have_nightly = os.environ.get("VERIF_NO_NIGHTLY") != "1" and run(["cargo", "+nightly", "--version"]).returncode == 0
    if have_nightly:
        env2 = dict(env)
        env2["RUSTFLAGS"] = "-Zsanitizer=address"
        p = run(["cargo", "+nightly", "build", "--offline", "--release", "--target", "x86_64-unknown-linux-gnu"],
                cwd=HARNESS, env=env2, timeout=1800)
        b = os.path.join(tdir, "x86_64-unknown-linux-gnu", "release", "owl-harness")
        if p.returncode == 0 and os.path.exists(b):
            return b, "release+asan (nightly, opt-level 3, no debug assertions, AddressSanitizer)"
    p = run(["cargo", "build", "--offline", "--release"], cwd=HARNESS, env=env, timeout=1800)
    b = os.path.join(tdir, "release", "owl-harness")
    if p.returncode == 0 and os.path.exists(b):
        return b, "release (opt-level 3, no debug assertions)"
    return None, "second configuration did not build: " + (p.stderr or "")[-300:]


def translate(out_dir):
    p = run([sys.executable, os.path.join(VERIF, "tools", "translate.py"), "--out-dir", out_dir, "--repo", REPO,
             "--dest", GEN])
    try:
        res = json.loads(p.stdout.strip().splitlines()[-1])
    except Exception:
        res = {"changed": [], "errors": ["translator crashed: " + p.stderr[-500:]]}
    return res


def lake_build(targets, timeout=3600):
    p = run(["lake", "build"] + targets, cwd=LEAN, timeout=timeout)
    return p.returncode == 0, (p.stdout + p.stderr)


def prop_modules(prop):
    """Props/<id>.lean plus any Props/<id>_*.lean (further theorem files of the same property)"""
    d = os.path.join(LEAN, "OwlModel", "Props")
    mods = []
    if os.path.exists(os.path.join(d, prop + ".lean")):
        mods.append(prop)
    if os.path.isdir(d):
        mods += sorted(f[:-5] for f in os.listdir(d) if f.startswith(prop + "_") and f.endswith(".lean"))
    return mods


def theorem_names(prop):
    names = []
    for mod in prop_modules(prop):
        src = open(os.path.join(LEAN, "OwlModel", "Props", mod + ".lean")).read()
        src = re.sub(r"/-.*?-/", "", src, flags=re.S)
        src = re.sub(r"--[^\n]*", "", src)
        ns = re.search(r"^namespace\s+(\S+)", src, re.M)
        prefix = (ns.group(1) + ".") if ns else ""
        names += [prefix + n for n in re.findall(r"^theorem\s+([A-Za-z0-9_'.?!]+)", src, re.M)]
    return names


def forbidden_tokens(prop):
    """grep the property module and everything under Lemmas/ for sorry/admit/axiom/native_decide/..."""
    hits = []
    pat = re.compile(r"\b(sorry|admit|native_decide|bv_decide|implemented_by|unsafe)\b|^\s*axiom\s|maxHeartbeats\s+0\b")
    roots = [os.path.join(LEAN, "OwlModel", d) for d in ("Props", "Lemmas", "Impl", "Spec")] + [os.path.join(LEAN, "OwlModel")]
    seen = set()
    for root in roots:
        for dp, _, fs in os.walk(root):
            if "Gen" in dp.split(os.sep) or "Driver" in dp.split(os.sep):
                continue
            for f in fs:
                if not f.endswith(".lean"):
                    continue
                p = os.path.join(dp, f)
                if p in seen:
                    continue
                seen.add(p)
                src = open(p).read()
                src = re.sub(r"/-.*?-/", lambda m: "\n" * m.group(0).count("\n"), src, flags=re.S)
                for i, line in enumerate(src.splitlines(), 1):
                    line = re.sub(r"--.*", "", line)
                    if pat.search(line):
                        hits.append(f"{os.path.relpath(p, LEAN)}:{i}: {line.strip()[:80]}")
    return hits


def audit_axioms(prop, names):
    """#print axioms for every property theorem; returns {name: [axioms]} and the list of offenders"""
    if not names:
        return {}, []
    os.makedirs(WORK, exist_ok=True)
    path = os.path.join(WORK, f"Audit_{prop}.lean")
    with open(path, "w") as f:
        for mod in prop_modules(prop):
            f.write(f"import OwlModel.Props.{mod}\n")
        for n in names:
            f.write(f"#print axioms {n}\n")
    p = run(["lake", "env", "lean", path], cwd=LEAN, timeout=1200)
    text = p.stdout + p.stderr
    res = {}
    for n in names:
        short = n
        m = re.search(r"'" + re.escape(short) + r"' depends on axioms: \[(.*?)\]", text, re.S)
        if m:
            res[n] = [a.strip() for a in m.group(1).replace("\n", " ").split(",") if a.strip()]
        elif re.search(r"'" + re.escape(short) + r"' does not depend on any axioms", text):
            res[n] = []
        else:
            res[n] = ["<audit failed>"]
    offenders = [n for n, ax in res.items() if any(a not in ALLOWED_AXIOMS for a in ax)]
    return res, offenders


def read_lines(path):
    with open(path, encoding="utf-8", errors="replace") as f:
        return f.read().split("\n")


def load_known(prop):
    open_, fixed = [], []
    p = os.path.join(VERIF, "known_findings.txt")
    if os.path.exists(p):
        for line in open(p):
            line = line.rstrip("\n")
            m = re.match(r"open: property=(\S+) case=(.*?) :: (.*)$", line)
            if m and m.group(1) == prop:
                open_.append((m.group(2), m.group(3)))
            m = re.match(r"fixed: property=(\S+) (.*)$", line)
            if m and m.group(1) == prop:
                fixed.append(m.group(2))
    return open_, fixed


def corpus_cases(prop):
    d = os.path.join(VERIF, "corpus", prop)
    res = []
    if os.path.isdir(d):
        for f in sorted(os.listdir(d)):
            if f.endswith(".case"):
                for line in open(os.path.join(d, f)):
                    line = line.strip()
                    if line and not line.startswith("#"):
                        res.append(line)
    return res


ABORTED = "abort"
NOT_RUN = "<not-run: more than 12 aborting cases>"


def harness_once(binary, cases, cpath, ipath, pfile):
    with open(cpath, "w") as f:
        f.write("\n".join(cases) + ("\n" if cases else ""))
    if os.path.exists(pfile):
        os.remove(pfile)
    p = run([binary, "run", cpath, ipath], timeout=3600, env={"OWL_PANIC_FILE": pfile})
    if p.returncode == 0:
        return read_lines(ipath)[: len(cases)], None
    crumb = open(pfile).read() if os.path.exists(pfile) else ""
    return None, (crumb, (p.stderr or "")[-800:])


def run_harness_resilient(binary, cases, cpath, ipath, tag):
    """The harness catches ordinary panics per case. A panic that cannot unwind (violated `unsafe` precondition check,
    panic in a nounwind context) or a fatal signal kills the whole process: then the aborting case is located (breadcrumb
    written by the panic hook, confirmed by running the case alone; bisection otherwise), answered `abort: …`, and the
    remaining cases are run without it."""
    pfile = os.path.join(WORK, f"{tag}.lastpanic.txt")
    todo = list(range(len(cases)))
    answers = {}
    for _round in range(12):
        if not todo:
            break
        out, fail = harness_once(binary, [cases[i] for i in todo], cpath, ipath, pfile)
        if out is not None:
            for i, o in zip(todo, out):
                answers[i] = o
            todo = []
            break
        crumb, err = fail
        culprit = None
        first = crumb.split("\n", 1)[0].split(" ## step: ")[0].strip()
        cand = [i for i in todo if cases[i] == first]
        if cand:
            o2, f2 = harness_once(binary, [cases[cand[0]]], cpath, ipath, pfile)
            if o2 is None:
                culprit = cand[0]
        if culprit is None:
            lo, hi = 0, len(todo)          # invariant: the first aborting case lies in todo[lo:hi]
            while hi - lo > 1:
                mid = (lo + hi) // 2
                o2, f2 = harness_once(binary, [cases[i] for i in todo[lo:mid]], cpath, ipath, pfile)
                if o2 is None:
                    hi = mid
                else:
                    for i, o in zip(todo[lo:mid], o2):
                        answers[i] = o
                    lo = mid
            culprit = todo[lo]
        msg = " ".join((crumb.split("\n") + ["", ""])[1:3]).strip() or err.strip().splitlines()[-1:] or "process died"
        answers[culprit] = f"{ABORTED}: {str(msg)[:300]}"
        log(f"harness aborted on case: {cases[culprit][:160]}  ({str(msg)[:120]})")
        todo = [i for i in todo if i != culprit and i not in answers]
    for i in todo:
        answers[i] = NOT_RUN
    return [answers[i] for i in range(len(cases))]


def run_streams(binary, cases, tag):
    """writes cases, runs harness (impl) and driver (model, oracle); returns lists"""
    os.makedirs(WORK, exist_ok=True)
    cpath = os.path.join(WORK, f"{tag}.cases.txt")
    ipath = os.path.join(WORK, f"{tag}.impl.txt")
    mpath = os.path.join(WORK, f"{tag}.model.txt")
    with open(cpath, "w") as f:
        f.write("\n".join(cases) + ("\n" if cases else ""))
    impl = run_harness_resilient(binary, cases, cpath, ipath, tag)
    model, oracle = run_driver(cases, impl, tag)
    return impl, model, oracle


def run_driver(cases, impl, tag):
    cpath = os.path.join(WORK, f"{tag}.cases.txt")
    ipath = os.path.join(WORK, f"{tag}.impl.txt")
    mpath = os.path.join(WORK, f"{tag}.model.txt")
    # the driver is single-threaded: split into chunks and run in parallel
    n = len(cases)
    jobs = max(1, min(16, n // 200 + 1))
    size = (n + jobs - 1) // jobs if n else 1
    procs = []
    for j in range(jobs):
        lo, hi = j * size, min(n, (j + 1) * size)
        if lo >= hi:
            continue
        cj, ij, mj = f"{cpath}.{j}", f"{ipath}.{j}", f"{mpath}.{j}"
        with open(cj, "w") as f:
            f.write("\n".join(cases[lo:hi]) + "\n")
        with open(ij, "w") as f:
            f.write("\n".join(impl[lo:hi]) + "\n")
        procs.append((subprocess.Popen([os.path.join(LEAN, ".lake", "build", "bin", "owldrv"), cj, ij, mj],
                                       stdout=subprocess.PIPE, stderr=subprocess.PIPE), cj, ij, mj, hi - lo))
    model, oracle = [], []
    for pr, cj, ij, mj, cnt in procs:
        _, err = pr.communicate()
        if pr.returncode != 0:
            raise RuntimeError("driver failed: " + err.decode(errors="replace")[-1500:])
        lines = read_lines(mj)[:cnt]
        for ln in lines:
            a, _, b = ln.partition("\t")
            model.append(a)
            oracle.append(b)
        for x in (cj, ij, mj):
            os.remove(x)
    while len(model) < n:
        model.append("<missing>")
        oracle.append("-")
    return model, oracle


def config_pass(binary2, cases, impl, tag):
    """the same case lines through the second build configuration. Answers equal to the first configuration's inherit
    its verdicts; differing answers are judged afresh by the model and the oracle."""
    cpath = os.path.join(WORK, f"{tag}.cfg.cases.txt")
    ipath = os.path.join(WORK, f"{tag}.cfg.impl.txt")
    impl2 = run_harness_resilient(binary2, cases, cpath, ipath, tag + ".cfg")
    diff = [i for i in range(len(cases)) if impl2[i] != impl[i] and impl2[i] != NOT_RUN and impl[i] != NOT_RUN]
    bad, mism, judged = [], [], {}
    if diff:
        sub = [cases[i] for i in diff]
        subimpl = [impl2[i] for i in diff]
        m2, o2 = run_driver(sub, subimpl, tag + ".cfg")
        b, m = compare(sub, subimpl, m2, o2)
        bad = [diff[j] for j in b]
        mism = [diff[j] for j in m]
        judged = {diff[j]: (m2[j], o2[j]) for j in range(len(diff))}
    return impl2, diff, bad, mism, judged


def strip_rt(s):
    return re.sub(r" rt=[01]$", "", s)


def compare(cases, impl, model, oracle):
    bad, mism = [], []
    for i, c in enumerate(cases):
        im = impl[i] if i < len(impl) else "<missing>"
        if im == NOT_RUN:
            continue
        if oracle[i].startswith("bad") or im.startswith(ABORTED + ":"):
            bad.append(i)
        if model[i] not in ("~", "") and strip_rt(model[i]) != strip_rt(im):
            mism.append(i)
    return bad, mism


def write_replay(prop, seed, kind, entries, extra=None):
    d = os.path.join(VERIF, "replays")
    os.makedirs(d, exist_ok=True)
    path = os.path.join(d, f"{prop}-{seed}-{int(time.time())}.json")
    k = 1
    while os.path.exists(path):
        k += 1
        path = os.path.join(d, f"{prop}-{seed}-{int(time.time())}-{k}.json")
    with open(path, "w") as f:
        json.dump({"property": prop, "kind": kind, "seed": seed, "cases": entries, **(extra or {}),
                   "command": f"./check {prop} --replay {path}"}, f, indent=1)
    return path


def shrink_cases(idx_list, cases, limit=5):
    idx_list = sorted(idx_list, key=lambda i: len(cases[i]))
    return idx_list[:limit]


def main():
    ap = argparse.ArgumentParser()
    ap.add_argument("prop")
    ap.add_argument("--tier", default=os.environ.get("VERIF_TIER", "quick"))
    ap.add_argument("--replay")
    a = ap.parse_args()
    prop = a.prop
    if prop not in PROPS:
        print(f"unknown property {prop}", file=sys.stderr)
        return 2
    cfg = PROPS[prop]
    tier = a.tier if a.tier in ("quick", "thorough") else "quick"
    seed = int(os.environ.get("VERIF_SEED", "20260926"))
    os.environ.setdefault("ASAN_OPTIONS", "detect_leaks=0")
    t0 = time.time()
    violations = []          # (kind, replay path, note)
    known_hits = []
    notes = []

    # ---- 1. build the harness from the current tree, translate, build Lean
    with Lock("build"):
        try:
            binary, out_dir = build_harness(release=False)
        except Exception as e:
            # the tree does not compile (or the hooks are gone): nothing can be shown to hold
            rp = write_replay(prop, seed, "build", [], {"error": str(e)[-3000:]})
            write_evidence(prop, tier, seed, cfg, t0, {"build_error": str(e)[-500:]}, 1, [], [], {}, [])
            print(f"VIOLATION property={prop} replay={rp} no-failing-input-found")
            return 1
        tr = translate(out_dir)
        log(f"translator: changed={tr['changed']} errors={tr['errors']}"
            + (f" fallbacks={tr.get('fallbacks')}" if tr.get("fallbacks") else ""))
        fp_path = os.path.join(GEN, "fingerprints.json")
        base_path = os.path.join(VERIF, "tools", "fingerprints.baseline.json")
        stale = []
        if os.path.exists(fp_path) and os.path.exists(base_path):
            cur, basefp = json.load(open(fp_path)), json.load(open(base_path))
            stale = sorted(k for k in cur if basefp.get(k) != cur[k])
        # thresholds whose code shape the translator no longer recognises: last known value kept, search widened
        stale += [f"translator-fallback: {x}" for x in tr.get("fallbacks", [])]
        ok_drv, out_drv = lake_build(["owldrv"])
        thm_names = theorem_names(prop)
        ok_thm, out_thm = (True, "")
        if thm_names or os.path.exists(os.path.join(LEAN, "OwlModel", "Props", prop + ".lean")):
            ok_thm, out_thm = lake_build([f"OwlModel.Props.{m}" for m in prop_modules(prop)])
    obligation_broken = None
    if tr["errors"]:
        obligation_broken = "translator: " + "; ".join(tr["errors"])
    elif not ok_drv:
        obligation_broken = "lake build owldrv failed:\n" + out_drv[-3000:]
    elif not ok_thm:
        obligation_broken = f"lake build OwlModel.Props.{prop} failed:\n" + "\n".join(
            l for l in out_thm.splitlines() if "error" in l or "Props" in l)[-3000:]

    axioms, offenders, forb = {}, [], []
    if ok_thm and not tr["errors"]:
        axioms, offenders = audit_axioms(prop, thm_names)
        forb = forbidden_tokens(prop)
        if offenders:
            obligation_broken = "axiom audit: " + ", ".join(f"{n}: {axioms[n]}" for n in offenders)
        elif forb:
            obligation_broken = "forbidden tokens: " + "; ".join(forb[:5])

    if not ok_drv and not os.path.exists(os.path.join(LEAN, ".lake", "build", "bin", "owldrv")):
        rp = write_replay(prop, seed, "obligation", [], {"broken": obligation_broken})
        write_evidence(prop, tier, seed, cfg, t0, {"obligation_broken": obligation_broken[:500]}, 1, thm_names, [], axioms, stale)
        print(f"VIOLATION property={prop} replay={rp} no-failing-input-found")
        return 1

    # ---- 2. replay mode
    if a.replay:
        rep = json.load(open(a.replay))
        cases = [e["case"] for e in rep.get("cases", [])]
        if not cases:
            print(f"VIOLATION property={prop} replay={a.replay} no-failing-input-found")
            return 1
        rbin = binary
        if any(e.get("configuration") for e in rep.get("cases", [])):
            b2, label2 = build_harness_config()
            if b2:
                rbin = b2
                print(f"replaying in configuration: {label2}")
        impl, model, oracle = run_streams(rbin, cases, f"{prop}.replay")
        bad, mism = compare(cases, impl, model, oracle)
        for i, c in enumerate(cases):
            print(f"case: {c}\n impl:   {impl[i][:300]}\n model:  {model[i][:300]}\n oracle: {oracle[i][:300]}")
        if bad or mism or obligation_broken:
            tail = "" if bad else " no-failing-input-found"
            print(f"VIOLATION property={prop} replay={a.replay}{tail}")
            return 1
        print("replay: no disagreement any more")
        return 0

    # ---- 3. cases: corpus first, then generated
    # model-drift sentinel: a modelled function changed (or an obligation broke) -> look four times as wide
    escalate = bool(stale) or bool(obligation_broken)
    gen_tier = "thorough" if tier == "thorough" else "quick"
    scale = cfg.get("scale", {}).get(gen_tier, 1.0) * (4.0 if (escalate and tier != "thorough") else 1.0)
    cases = corpus_cases(prop)
    n_corpus = len(cases)
    stats = {}
    gpath = os.path.join(WORK, f"{prop}.gen.txt")
    spath = os.path.join(WORK, f"{prop}.stats.json")
    os.makedirs(WORK, exist_ok=True)
    gen_abort = None
    pfile = os.path.join(WORK, f"{prop}.genpanic.txt")
    if os.path.exists(pfile):
        os.remove(pfile)
    p = run([binary, "gen", "--prop", prop, "--tier", gen_tier, "--seed", str(seed), "--out", gpath, "--stats", spath,
             "--scale", str(scale)], timeout=3600, env={"OWL_PANIC_FILE": pfile})
    if p.returncode != 0:
        # the generators drive the real library (legal moves, chain simulation); the library killed the process
        crumb = open(pfile).read() if os.path.exists(pfile) else ""
        gen_abort = {"input": crumb.split("\n", 1)[0], "message": " ".join(crumb.split("\n")[1:3]).strip()
                     or (p.stderr or "")[-300:], "backtrace": crumb[-2500:]}
        log(f"harness gen aborted inside the library: {gen_abort['input'][:160]} ({gen_abort['message'][:120]})")
    cases += [l for l in read_lines(gpath) if l.strip()] if os.path.exists(gpath) else []
    try:
        stats = json.load(open(spath))
    except Exception:
        stats = {}
    log(f"{len(cases)} cases ({n_corpus} corpus), tier={gen_tier}, stale={len(stale)}")
    impl, model, oracle = run_streams(binary, cases, prop)
    bad, mism = compare(cases, impl, model, oracle)
    log(f"oracle-bad={len(bad)} model-mismatch={len(mism)}")

    # ---- 3b. the same cases in the second build configuration (optimised, no debug assertions; AddressSanitizer)
    cfg_info = {"configuration": None}
    cfg_bad, cfg_mism, cfg_judged, impl2 = [], [], {}, None
    if os.environ.get("VERIF_NO_CONFIG_PASS") != "1":
        with Lock("build"):
            binary2, label2 = build_harness_config()
        if binary2 is None:
            cfg_info = {"configuration": None, "skipped": label2}
            log(f"second configuration skipped: {label2[:200]}")
        else:
            impl2, cfg_diff, cfg_bad, cfg_mism, cfg_judged = config_pass(binary2, cases, impl, prop)
            cfg_info = {"configuration": label2, "cases": len(cases), "answers_differing_from_debug": len(cfg_diff),
                        "oracle_bad": len(cfg_bad), "model_mismatch": len(cfg_mism),
                        "aborts": sum(1 for x in impl2 if x.startswith(ABORTED + ":"))}
            log(f"second configuration [{label2.split(' ')[0]}]: differing={len(cfg_diff)} oracle-bad={len(cfg_bad)} "
                f"model-mismatch={len(cfg_mism)}")

    # ---- 4. verdict
    known_open, _ = load_known(prop)
    known_cases = {k: what for k, what in known_open}
    new_bad = []
    for i in bad:
        if cases[i] in known_cases:
            known_hits.append((cases[i], known_cases[cases[i]]))
        else:
            new_bad.append(i)
    for c, what in sorted(set(known_hits)):
        print(f"KNOWN-FINDING: property={prop} {what} [case: {c[:200]}]")

    def entry(i):
        return {"case": cases[i], "impl": impl[i], "model": model[i], "oracle": oracle[i]}

    def entry2(i):
        m2, o2 = cfg_judged.get(i, (model[i], oracle[i]))
        return {"case": cases[i], "configuration": cfg_info.get("configuration"), "impl": impl2[i],
                "impl_debug_build": impl[i], "model": m2, "oracle": o2}

    cfg_new_bad = [i for i in cfg_bad if cases[i] not in known_cases and i not in set(new_bad)]
    if cfg_new_bad:
        sel = shrink_cases(cfg_new_bad, cases)
        rp = write_replay(prop, seed, "failing-input", [entry2(i) for i in sel],
                          {"total_failing": len(cfg_new_bad), "configuration": cfg_info.get("configuration"),
                           "note": "fails in the second build configuration only (same input passes in the debug build)",
                           "obligation_broken": obligation_broken})
        violations.append(("failing-input", rp, ""))
    elif cfg_mism and not new_bad and not mism and not obligation_broken:
        rp = write_replay(prop, seed, "correspondence", [entry2(i) for i in shrink_cases(cfg_mism, cases)],
                          {"broken": f"impl ({cfg_info.get('configuration')}) != Impl model on {len(cfg_mism)} cases",
                           "total_mismatch": len(cfg_mism)})
        violations.append(("correspondence", rp, "no-failing-input-found"))

    if gen_abort:
        rp = write_replay(prop, seed, "failing-input", [],
                          {"library_abort_during_generation": gen_abort, "obligation_broken": obligation_broken})
        violations.append(("failing-input", rp, ""))
    if new_bad:
        sel = shrink_cases(new_bad, cases)
        rp = write_replay(prop, seed, "failing-input", [entry(i) for i in sel],
                          {"total_failing": len(new_bad), "obligation_broken": obligation_broken})
        violations.append(("failing-input", rp, ""))
    elif obligation_broken:
        rp = write_replay(prop, seed, "obligation", [entry(i) for i in shrink_cases(mism, cases)],
                          {"broken": obligation_broken})
        violations.append(("obligation", rp, "no-failing-input-found"))
    elif mism:
        # correspondence broken and the oracle found nothing: the property is no longer shown to hold
        rp = write_replay(prop, seed, "correspondence", [entry(i) for i in shrink_cases(mism, cases)],
                          {"broken": f"impl != Impl model on {len(mism)} cases (stream {cases[mism[0]].split(' ')[0]})",
                           "total_mismatch": len(mism)})
        violations.append(("correspondence", rp, "no-failing-input-found"))

    # thorough tier: independent re-check of the compiled property module
    leanchecker = None
    if tier == "thorough" and thm_names and not obligation_broken:
        leanchecker = True
        for mod in prop_modules(prop):
            p = run(["lake", "env", "leanchecker", f"OwlModel.Props.{mod}"], cwd=LEAN, timeout=3600)
            leanchecker = leanchecker and p.returncode == 0
            if p.returncode != 0:
                break
        if not leanchecker:
            rp = write_replay(prop, seed, "obligation", [], {"broken": "leanchecker rejected the module: " + (p.stdout + p.stderr)[-1500:]})
            violations.append(("obligation", rp, "no-failing-input-found"))

    cov = coverage(cases, impl, oracle, model, stats, n_corpus)
    cov["leanchecker"] = leanchecker
    cov["second_configuration"] = cfg_info
    write_evidence(prop, tier, seed, cfg, t0, cov, len(violations), thm_names, offenders, axioms, stale,
                   obligation_broken=obligation_broken, known=len(set(known_hits)))
    for kind, rp, tail in violations:
        print(f"VIOLATION property={prop} replay={rp}" + (f" {tail}" if tail else ""))
    return 1 if violations else 0


def coverage(cases, impl, oracle, model, stats, n_corpus):
    ops = {}
    distinct = set()
    nontrivial = 0
    for i, c in enumerate(cases):
        op = c.split(" ", 1)[0]
        ops[op] = ops.get(op, 0) + 1
        h = hashlib.blake2b(c.encode(), digest_size=8).digest()
        if h in distinct:
            continue
        distinct.add(h)
        im = impl[i] if i < len(impl) else ""
        # non-trivial: the implementation gave a substantive answer (not invalid / n/a / notwf / badop)
        if im not in ("invalid", "n/a", "notwf", "badop", "", "skip"):
            nontrivial += 1
    return {
        "evaluations": len(cases),
        "distinct_nontrivial": nontrivial,
        "rule": "cases = corpus + generator families of DESIGN §3.2 from one seeded PRNG; distinct = different case line; "
                "non-trivial = the implementation returned a substantive answer (not invalid/n-a/notwf/skip)",
        "corpus_cases": n_corpus,
        "ops": ops,
        "oracle_checked": sum(1 for o in oracle if o == "ok"),
        "oracle_silent": sum(1 for o in oracle if o in ("-", "")),
        "model_compared": sum(1 for m in model if m not in ("~", "")),
        "impl_panics": sum(1 for x in impl if x.startswith("panic")),
        "samples": [{"case": cases[i][:400], "impl": impl[i][:200], "oracle": oracle[i][:100]}
                    for i in (list(range(0, len(cases), max(1, len(cases) // 5)))[:5] if cases else [])],
        "distribution": stats,
    }


def write_evidence(prop, tier, seed, cfg, t0, cov, nviol, thm_names, offenders, axioms, stale,
                   obligation_broken=None, known=0):
    os.makedirs(os.path.join(VERIF, "evidence"), exist_ok=True)
    n_obl = len(thm_names)
    discharged = 0 if obligation_broken and ("lake build" in obligation_broken or "translator" in obligation_broken) \
        else n_obl - len(offenders)
    cov = dict(cov)
    cov.update({
        "obligations": max(n_obl, 0),
        "discharged": max(discharged, 0),
        "theorems": thm_names,
        "axioms": axioms,
        "checker_cmd": f"cd /verif/lean && lake build OwlModel.Props.{prop} && lake env lean work/Audit_{prop}.lean (#print axioms)",
        "trusted_base": ["Lean 4.33.0 kernel", "axioms: propext, Quot.sound, Classical.choice (nothing else; audited per theorem)",
                         "tools/translate.py (tables/constants extraction)", "harness + driver correspondence (differential, sampled)",
                         "Spec layer statements (OwlModel/Spec, OwlModel/Props)", "modelled std: u16 parsing/printing, split, HashMap, ArrayVec"],
        "model_stale_functions": stale,
        "partial": cfg.get("partial", []),
        "proved": cfg.get("proved", ""),
        "obligation_broken": obligation_broken,
        "known_findings_hit": known,
    })
    if "evaluations" not in cov:
        cov["evaluations"] = 0
        cov["distinct_nontrivial"] = 0
    ev = {"property_id": prop, "tier": tier, "seed": seed, "level": cfg.get("level", "proof"), "coverage": cov,
          "assumptions": cfg.get("assumptions", []), "wall_s": round(time.time() - t0, 2), "violations": nviol}
    with open(os.path.join(VERIF, "evidence", prop + ".json"), "w") as f:
        json.dump(ev, f, indent=1)


if __name__ == "__main__":
    try:
        sys.exit(main())
    except Exception as e:  # a crash of the machinery must not look like a pass
        print(f"[check] internal error: {e}", file=sys.stderr)
        import traceback
        traceback.print_exc()
        sys.exit(3)
