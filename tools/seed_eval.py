#!/usr/bin/env python3
"""Evaluate one seeded change: confirm it in a scratch worktree (tests pass, demo fails with it and passes
without), then apply it to /repo, run the given checks, undo it, and record everything under seeded/<name>/.

usage: seed_eval.py <name> <patch.diff> <demo.rs> <notes.md> <prop> [<prop>...]
"""
import json, os, shutil, subprocess, sys, time

VERIF = os.path.dirname(os.path.dirname(os.path.abspath(__file__)))
WT = "/tmp/seed/confirm"


def sh(cmd, cwd=None, timeout=3600):
    p = subprocess.run(cmd, shell=True, cwd=cwd, text=True, stdout=subprocess.PIPE, stderr=subprocess.STDOUT, timeout=timeout,
                       env={**os.environ, "CARGO_NET_OFFLINE": "true"})
    return p.returncode, p.stdout


def main():
    name, patch, demo, notes = sys.argv[1:5]
    props = sys.argv[5:]
    out = os.path.join(VERIF, "seeded", name)
    os.makedirs(out, exist_ok=True)
    shutil.copy(patch, os.path.join(out, "patch.diff"))
    shutil.copy(demo, os.path.join(out, "demo.rs"))
    if os.path.exists(notes):
        shutil.copy(notes, os.path.join(out, "notes.md"))
    meta = {"name": name, "checked_against": props, "ran": []}
    # ---- confirmation in a scratch worktree
    if not os.path.isdir(WT):
        sh(f"git -C /repo worktree add -q --detach {WT} HEAD")
    sh("git checkout -q -- . && git clean -fdq chess/tests", cwd=WT)
    sh("git checkout -q --detach $(git -C /repo rev-parse HEAD)", cwd=WT)
    os.makedirs(os.path.join(WT, "chess/tests"), exist_ok=True)
    shutil.copy(demo, os.path.join(WT, "chess/tests/seed_demo.rs"))
    head = "".join(open(demo).readlines()[:25])
    rel = " --release" if "--release" in head else ""
    feat = " --features verif" if "features verif" in head else ""
    meta["demo_profile"] = "release" if rel else "debug"
    rc0, o0 = sh(f"cargo test --offline -p owlchess{rel}{feat} --test seed_demo 2>&1 | tail -5", cwd=WT)
    clean_pass = "test result: ok" in o0
    rc, o = sh(f"git apply {os.path.abspath(patch)}", cwd=WT)
    applied = rc == 0
    rc1, o1 = sh(f"cargo test --offline -p owlchess{rel}{feat} --test seed_demo 2>&1 | tail -5", cwd=WT)
    mutant_fail = "test result: FAILED" in o1 or "error" in o1
    os.remove(os.path.join(WT, "chess/tests/seed_demo.rs"))
    rc2, o2 = sh("cargo test --workspace --offline 2>&1 | grep -E '^test result|FAILED|error(\\[|:)'", cwd=WT)
    suite_pass = applied and "FAILED" not in o2 and "error" not in o2 and o2.count("test result: ok") >= 2
    sh("git checkout -q -- .", cwd=WT)
    meta["confirmation"] = {"demo_passes_on_clean_tree": clean_pass, "patch_applies": applied,
                            "demo_fails_with_change": mutant_fail, "test_suite_passes_with_change": suite_pass,
                            "suite_output": o2.strip().splitlines()[-4:]}
    meta["ran"].append("scratch worktree: cargo test -p owlchess --test seed_demo (clean, mutated); cargo test --workspace --offline (mutated)")
    confirmed = clean_pass and applied and mutant_fail and suite_pass
    meta["confirmed"] = confirmed
    results = {}
    if confirmed:
        rc, o = sh(f"git -C /repo apply {os.path.abspath(patch)}")
        try:
            for p in props:
                t0 = time.time()
                rc, o = sh(f"./check {p} --tier quick", cwd=VERIF, timeout=7200)
                lines = [l for l in o.splitlines() if l.startswith("VIOLATION") or l.startswith("KNOWN-FINDING")]
                replay = None
                for l in lines:
                    if "replay=" in l:
                        replay = l.split("replay=")[1].split()[0]
                detail = None
                if replay and os.path.exists(replay):
                    r = json.load(open(replay))
                    detail = {"kind": r.get("kind"), "first_case": (r.get("cases") or [{}])[0], "broken": (r.get("broken") or r.get("obligation_broken") or "")[:600]}
                results[p] = {"exit": rc, "lines": lines, "wall_s": round(time.time() - t0, 1), "replay": detail}
                meta["ran"].append(f"/repo patched: ./check {p} --tier quick -> exit {rc}")
        finally:
            sh("git -C /repo checkout -- .")
    meta["results"] = results
    meta["detected_by"] = [p for p, r in results.items() if r["exit"] == 1 and any(l.startswith("VIOLATION") for l in r["lines"])]
    json.dump(meta, open(os.path.join(out, "meta.json"), "w"), indent=1)
    print(json.dumps({"name": name, "confirmed": confirmed, "detected_by": meta["detected_by"],
                      "results": {p: (r["exit"], r["lines"][:2], r["wall_s"]) for p, r in results.items()}}, indent=1))


if __name__ == "__main__":
    main()
