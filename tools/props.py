"""Per-property configuration of the checks (names, residuals, assumptions)."""

COMMON_ASSUME = [
    "Impl model is tied to the Rust by differential correspondence on generated cases, not by proof",
    "tables and constants are re-extracted from /repo on every run by tools/translate.py",
    "Rust std pieces (u16 parsing/printing, split, HashMap, ArrayVec) are modelled",
]

PROPS = {f"C{i:02d}": {"level": "proof", "assumptions": list(COMMON_ASSUME), "partial": [], "proved": ""} for i in range(1, 21)}
