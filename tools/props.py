"""Per-property configuration of the checks: claimed level, what is proved, residuals, case-volume scales."""

COMMON_ASSUME = [
    "the hand-written Impl model is tied to the Rust by differential correspondence on generated cases (sampled), not by proof",
    "tables and constants are re-extracted from /repo on every run by tools/translate.py (trusted)",
    "Rust std pieces (u16 parsing/printing, split, HashMap, ArrayVec, swap_bytes, reverse_bits, count_ones) are modelled",
    "the Spec layer (OwlModel/Spec) is the statement of the rules; validated against published perft counts",
]

DIFF = ("differential: the real library, the Lean implementation model and the Lean specification oracle are run on the "
        "same generated cases; any impl/oracle disagreement is a failing input, any impl/model disagreement breaks the tie")


def P(level, proved, partial, technique, design, scale_q=1.0, scale_t=1.0):
    return {"level": level, "proved": proved, "partial": partial, "technique": technique, "design_ref": design,
            "assumptions": list(COMMON_ASSUME), "scale": {"quick": scale_q, "thorough": scale_t}}


PROPS = {
    "C01": P("proof", "legalGen_eq_rules: on EVERY valid position the legal generator returns, each exactly once, precisely Spec.legalMoves "
             "(the rules' pseudo-legal moves — piece movement, captures, single/double pawn steps, en passant, four promotions, both "
             "castlings — that do not leave the mover's king attacked); legalGen_spec: the capture / simple / simple-no-promote / "
             "simple-promote legal generators return exactly the corresponding subsets, never panic, no duplicates; "
             "validate_iff_generated: Move::validate and apply-and-test agree with that set; ingredients proved: generator exactness "
             "(mem_genWith_iff), genWith_nodup, prefilter soundness (pinned_has_diag/line, prefilter_sound, isLegal_default), exactness of "
             "the unprefiltered legality test on all three code paths (isLegal_nil), make_refines_apply, pseudo_iff_semilegal; "
             "Props/C01_perft: the rules enumerate each move once (pseudoMoves_nodup, legalMoves_nodup), the generator's output is a "
             "permutation of the rules' legal moves (legalGen_perm), perft through the model = perft by the rules for every depth and "
             "valid position (perft_eq); Props/C01_sanity: kernel-checked published perft-1 counts of six standard positions",
             [],
             "Lean 4 theorems over all valid positions (kernel-decided geometry facts over all squares; sliders for all 2^64 occupancies via C15); "
             "differential (generators vs Lean Spec oracle, D1 family enumerated) ties the model to the code",
             "§6 C01", 0.5),
    "C02": P("proof", "valid_iff_validate (Valid b ⇔ the gate returns b unchanged); validate_valid / fen_board_valid (both entry points "
             "give valid positions); make_checked_iff + make_checked_iff_rules (impl Make for Move accepts exactly the semilegal moves that "
             "do not leave the mover's king attacked in Spec.apply of the position — via isLegal_nil, exactness of the unprefiltered "
             "legality test on all three code paths incl. castling and en passant); make_checked_valid (the result is valid, re-validates "
             "to itself, is Spec.apply of the position, mover not in check); make_checked_no_trap; tryUnchecked_eq (apply-and-test agrees "
             "with is_legal_unchecked); make_uci_valid, make_ucistr_iff (UCI value / string accepted iff it spells a legal move); "
             "refusal_restores; backbone: make_shape, valid_make",
             ["SAN make-likes (san::Move, San<S>): proved — Props/C02_san (make_san_ok, make_san_valid)",
              "'semilegal' = the rules' pseudo-legal set: proved in C06 (semilegalGen_eq_pseudo)",
              "push through a move chain: C13 (proved)"],
             "Lean 4 theorems over all valid boards and all well-formed moves / all byte strings; differential on five move-like inputs × positions ties the model to the code",
             "§6 C02", 0.5),
    "C03": P("proof", "make_refines_apply: for every board with Shape (consistent derived state, rights and en-passant mark backed "
             "by the squares — established by the validation gate), one king per colour, and every well-formed semilegal move that "
             "does not capture a king (proved for every position from the validation gate: make_refines_apply_valid, no_king_capture), the raw position after make_move_unchecked equals Spec.apply field by field (squares, side, "
             "rights, en-passant mark, both counters); counters_no_wrap; validate_one_king",
             [],
             "Lean 4 refinement theorem per move kind (cells via Tab.ext, rights via the touched-home-square characterisation of "
             "update_castling, clocks, en-passant mark)", "§6 C03"),
    "C04": P("proof", "unmake_make: for every board whose derived state is consistent and every move satisfying the per-kind "
             "precondition MakeOk (implied by well-formed+semilegal, true for the null move), unmake(make b mv) = b in all fields "
             "(cells, side, rights, ep, both counters, hash, white, black, all, 13 piece sets); nested sequences by induction; "
             "Props/C04_objects: restored_is_original / restored_null_is_original (for every VALID board and every well-formed semilegal "
             "move, legal or not, and the null move), reached_validates, valid_null, null_validates — the theorems that let the "
             "correspondence ask any position question of a restored or reached board object (DESIGN §11.5)",
             [],
             "Lean 4 theorem about the Impl model of do_make_move/do_unmake_move (all 10 move kinds), tied by differential correspondence",
             "§5, §6 C04"),
    "C05": P("proof", "make_consistent: make_move_unchecked preserves (stored hash, colour sets, combined set, 13 piece sets) = "
             "from-scratch recomputation, for all 10 kinds; unmake restores; key-table facts (distinct keys, PIECES[0]=0, castling "
             "deltas) decided by the kernel on the extracted Zobrist table",
             ["single_feature_diff_hash_ne assembled only for the cases listed in Props/C05"],
             "Lean 4 invariant proof (Consistent b := b = buildBoard b.r) + kernel-decided facts on the extracted Zobrist table",
             "§5, §6 C05"),
    "C06": P("proof", "semilegalGen_all_iff (on a valid position a move is generated iff it is well-formed and is_semilegal accepts it); "
             "semilegalGen_eq_pseudo + pseudo_iff_semilegal (that set is exactly the rules' pseudo-legal moves, bijection concMove/absMove); "
             "semilegalGen_iff + whichClass_spec (capture / simple / simple-no-promote / simple-promote generators = the corresponding "
             "subsets, hence the disjoint unions); semilegalGen_nodup; generated_names_piece (every generated move is well-formed and "
             "names the man on its source); move_new_iff_geom (Move::new accepts exactly the geometrically possible tuples, all 532,480)",
             [],
             "Lean 4 theorems over all valid positions; differential (wfbulk over all tuples, semibulk, generators) ties the model to the code",
             "§6 C06"),
    "C07": P("proof", "calcOutcome_eq: on EVERY valid position Board::calc_outcome returns exactly Spec.outcome (checkmate won by the side not "
             "to move iff in check with no legal move; stalemate iff not in check with no legal move; otherwise insufficient material, "
             "then 150 half-moves, then 100 half-moves, else none — that order is the precedence; the reported reason applies) and never "
             "panics; hasLegalMoves_spec: the early-exit query is true exactly when the legal move set (C01) is non-empty — its skipping "
             "of castling is sound by king_step_legal; insufficient_material_iff: the bitboard test = nothing but kings, or a single "
             "knight, or only bishops all on one square colour (masks_spec: the extracted light/dark masks are the rule's squares); "
             "calcDrawSimple_eq",
             [],
             "Lean 4 theorems over all valid positions; differential on generated positions (single-generator-group family, square-colour corpus) ties the model to the code",
             "§6 C07"),
    "C08": P("proof", "fen_roundtrip (for EVERY raw board whose en-passant mark is on the rank for the side to move and whose counters "
             "fit u16, parseFen (fmtFen r) = r in all six fields) and fen_roundtrip_iff (those hypotheses are necessary); "
             "fen_roundtrip_valid (every valid position is read back, and Board::from_fen of its text returns the same board); "
             "fen_parse_format_parse (parse–format–parse is stable for ANY accepted text); cells_roundtrip (run-length encoding, no "
             "hypothesis), counter_roundtrip, splitSpaces_six / fmtFen_split (canonical six fields on single spaces), fmtFen_ascii, "
             "fmtFen_injective; fen_independent_reader(_valid) (Props/C08_reader: the independent grammar-style reader Spec.Fen.read interprets the text as exactly the same position), fen_readers_agree",
             [],
             "Lean 4 theorems over all raw boards and all byte strings; differential on generated positions and strings ties the model to the code",
             "§6 C08"),
    "C09": P("proof", "OUTPUT: san_output_standard (for every valid position and legal move the text produced is exactly Spec.San.write — "
             "piece letter, minimal file/rank/square disambiguation computed among legal moves only, capture mark, promotion suffix, "
             "castling symbols, + iff check with a legal reply, # iff check with none), san_output_roundtrip (the text parses back, in "
             "the same position, to the same SAN value and the same move), san_output_injective (distinct legal moves get distinct "
             "texts). INPUT, for every SAN value / byte string: san_input_sound (a move is returned only if it is legal and agrees "
             "with piece, destination, origin hints, capture mark and promotion), san_input_unique, san_ambiguity (two different agreeing "
             "legal moves ⇒ Ambiguity naming two of them, never a silent choice), search_spec, sanCandidates_spec, san_make_likes; Props/C09_styles: san_reparse (parse–format–parse of ANY parsed SAN value), styled_san / styled_sanUtf8 / styled_uci / styled_total (the styled list's move texts in all three styles are the standard ones and never fail)",
             [],
             "Lean 4 theorems over all valid positions, legal moves, SAN values and byte strings; differential vs Spec.San.write / Spec.San.denotes ties the model to the code",
             "§6 C09", 0.6, 1.0),
    "C10": P("proof", "uci_move_roundtrip: in every board with Shape (every validated position) each well-formed semilegal move, written "
             "and read back in that position, is recovered with its kind (castling, double step, en passant, each promotion); "
             "uci_parse_lang: the reader accepts exactly the writer's image; uci_semilegal_iff / uci_legal_iff: the checking readers "
             "return mv exactly when mv is a well-formed semilegal (resp. legal by is_legal_unchecked) move spelled by the string; "
             "uci_null_refused; uci_roundtrip_valid through bytes for validated positions",
             [],
             "Lean 4 theorems over all boards with Shape and all byte strings; differential on all 20,481 UCI strings × sampled positions ties the model to the code",
             "§6 C10", 0.5),
    "C11": P("proof", "validate_ok_iff: conversion succeeds exactly when Spec.ValidRaw holds (one king and ≤16 men each, no pawn on a "
             "back rank, en-passant mark on the right rank, side not to move not in check); validate_err_sound: the reported reason "
             "holds; validate_ok: the result is Spec.normalise of the input (only unbacked rights / marks dropped) with consistent "
             "derived state; validate_idem; validate_no_trap",
             [], "Lean 4 theorems over all raw boards (uses C16 for the king-attack gate, kernel-decided facts on extracted masks/thresholds)",
             "§6 C11"),
    "C12": P("proof", "no modelled parser reaches a panic site, for ALL byte strings: fen_total, fen_board_total, uci_total, san_total, "
             "the four base-type parsers; uci_in_position_total and san_in_position_total in every validated board (all three UCI readers, "
             "SAN resolution incl. candidate search); reparse for coord/cell/colour/rights/UCI",
             ["reparse clause: FEN proved (C08.fen_parse_format_parse); UCI proved (C12.uci_reparse); SAN proved for ANY byte string the parser accepts (Props/C09_styles: san_reparse, sanData_reparse_any) — and additionally checked on the implementation (rt= flag)",
              "push_uci_list totality at every token: proved in Props/C12_chain (pushUciList_no_trap, makeUciStr_no_trap) over the C13 invariant"],
             "Lean 4 theorems over byte-level parser models with explicit trap results (loop invariant for parse_cells, case analysis "
             "for the SAN/UCI grammars, king existence from the validation theorems)", "§6 C12", 1.0),
    "C13": P("proof", "ops_inv: after ANY sequence of pushes (moves, UCI values, UCI strings, UCI lists, SAN values, SAN strings; legal or not), pops and outcome "
             "operations the chain invariant holds (valid positions throughout, stack = a legal game from the unchanged start with the "
             "undo records make returned, board = its replay, repetition table = hash counts of the game so far); chain_faithful / "
             "chain_refines_rules (board = replay of the recorded moves, in the model and as Spec.replay); push_ok (an accepted push "
             "appends exactly that move; start and outcome untouched); push_refused; pop_spec' (pop undoes exactly the latest accepted "
             "push, restores the previous position exactly, clears the outcome, lowers the repetition count, cannot panic); "
             "pushUciList_go (accepted prefix); beq_iff (equality = start, move list, outcome)",
             [],
             "Lean 4 theorems by induction over operation sequences; differential on generated chain scripts ties the model to the code",
             "§6 C13"),
    "C14": P("proof", "over the C13 chain invariant (hs = every position of the game so far): calc_spec (the chain's calculation = the "
             "position's own outcome when forced or a mandatory draw, else ≥5 / ≥3 occurrences of the current hash in hs give Repeat5 / "
             "Repeat3, else the position's own outcome); occurrences_ge (every true repetition — same squares, side, rights, en-passant "
             "mark — is counted, by C05); passes_table (forced pass every filter, mandatory strict+relaxed, claimable relaxed only), passes_mono, is_force_exact; "
             "auto_spec (stores the calculated outcome exactly when it passes the filter); pop_push_counts; calc_total (no panic); "
             "Props/C14_exact: occurrences_eq and calc_spec_exact(') — with no 64-bit collision between the current position and "
             "the history the count IS the true repetition count and the calculation is stated over it",
             ["the position's own outcome (mate / stalemate / insufficient / 75 / 50) is C07 (now proved: calcOutcome_eq)",
              "occurrences are counted by Zobrist hash: an over-count needs a 64-bit collision (cannot be excluded by proof; C05 shows no under-count; C14_exact states the exact result under the explicit NoCollision hypothesis)"],
             "Lean 4 theorems over the chain invariant; differential on generated chain scripts (repetition-heavy flavours) ties the model to the code",
             "§6 C14"),
    "C15": P("proof", "rook/bishop lookups exact for all 64 squares × all 2^64 occupancies (kernel-decided over every submask of the "
             "extracted masks, lifted by walk-congruence and submask completeness); king/knight/pawn tables; alignment and "
             "strictly-between tables for all 4096 pairs", [],
             "Lean 4 theorems over tables regenerated from the build under test (decide +kernel over 107,648 submask cases + lifting lemmas)",
             "§6 C15"),
    "C16": P("proof", "cell_attackers_exact / is_cell_attacked_iff: for every consistent board (in particular every board from the "
             "validation gate), every square and colour, the attackers set contains exactly the men of that colour whose capturing "
             "pattern reaches the square (pawn diagonals, knight/king steps, slider ray walks up to the first occupied square); "
             "king_pos, is_check and checkers follow; hypothesis-free: is_cell_attacked = cell_attackers non-empty and is_check = checkers non-empty on every board",
             [], "Lean 4 theorems: table exactness (C15) + ray symmetry decided over all squares + set-membership characterisation of the stored piece sets",
             "§6 C16"),
    "C17": P("proof", "over the C13 chain invariant: runSteps_spec / walk_spec (for ANY list of next / prev / to-start / to-end steps the "
             "walker never panics, leaves the stack untouched, and every observation is exactly (the position that preceded move i, move i) "
             "for the indices the logical cursor passes, in order); setBoardPos_spec, next_spec, prev_spec; uciList_eq (the text is the "
             "moves' UCI spellings joined by single spaces), split_join + fmtUci_good (tokenisation), uciList_replay (replaying the text "
             "from the start position rebuilds the same start, the same stack incl. undo records and the same board, without error; "
             "equal to the chain with its outcome cleared); styled_spec (exact output: moves in game order, ` N.` before white moves "
             "with N = position's move number − start's + first number, status token), styled_status (status = fmtStatus of the stored outcome)",
             ["'rebuilds an equal chain' holds with the outcome cleared (the text carries no outcome; PartialEq compares it) — stated so",
              "styled_spec assumes the start move number ≤ 65535 (u16 in the code; the model stores a Nat)",
              "SAN style never fails on a recorded (legal) move: C09.san_output_roundtrip; the figurine style is proved too (Props/C09_styles: styled_sanUtf8, styled_total)"],
             "Lean 4 theorems by induction over step lists and over the game; differential on generated chain scripts (walk / uci / rebuild / styled, custom numbers up to 2^32) ties the model to the code",
             "§6 C17"),
    "C18": P("proof", "rules level (Lemmas/MirrorSpec): rules_mirror_v / rules_mirror_h — the mirror image of a valid position is valid, "
             "normalisation commutes, legal moves are exactly the mirror images, check / no-legal-move / insufficient material / outcome "
             "are preserved (winner swapped under the colour-swapping mirror); H for positions without castling rights; kernel-checked "
             "counterexamples show the side conditions are necessary. Implementation level: abs_mirror / abs_mirrorH (the raw-board "
             "mirror corresponds to the rules-level one), mirror_v_impl / mirror_h_impl (end to end through C11, C01, C07: the mirrored "
             "raw board passes the gate, the legal generator's output on it is exactly the mirror image of its output on the original, "
             "calc_outcome agrees with the winner swapped)",
             [],
             "Lean 4 theorems (one abstract symmetry, two instances); differential `mirror v|h` on generated positions ties the model to the code",
             "§6 C18"),
    "C19": P("proof", "semilegal_count_le_256 / pseudoMoves_le_256 / semilegalCountBound (Props/C19_bound): NO valid position has more than "
             "256 semilegal moves — proved by forgetting enemy men, a line-by-line automaton for the slider part, and LP-duality "
             "certificates (one tree per colour and king square, 471 leaves) whose validity the Lean kernel re-checks (Lemmas/Bound; the "
             "LP solver is not trusted; the bound is nearly tight — a valid position with 242 pseudo-legal moves exists); "
             "rookIndex_lt / bishopIndex_lt (the magic lookup index is inside the table for every square and all 2^64 occupancies), "
             "zobrist / square / cell / rights index ranges, on-board lemmas for every unchecked square-arithmetic site of the validator, "
             "make-move and the pawn generators (Props/C19_gen)",
             ["'in checked and optimised builds alike': the theorems are about source-level index arithmetic; the compilation itself is exercised, not proved, by running every case in two build configurations (debug with all checks on; release under AddressSanitizer — DESIGN §11.3)"],
             "Lean 4 theorems (kernel-checked optimisation certificates for the capacity bound; kernel-decided table ranges); differential "
             "genvec / gen / attackers / atk / index-constructor sweeps on maximal-mobility positions tie the model to the code",
             "§6 C19"),
    "C20": P("proof", "index/text round trips for every value of every finite type; parsers accept exactly the documented spellings (all byte "
             "strings, for coord/cell/colour); rights set algebra; bitboard operations = set operations; ascending iteration (as a filter); "
             "named rank/file/diag/antidiag/light/dark constants contain exactly the named squares (extracted values); shift/add/flips vs geometry",
             [],
             "Lean 4 theorems (decide over the finite types, BitVec lemmas, decide +kernel on extracted constants)", "§6 C20"),
}
