#!/usr/bin/env python3
"""ad-hoc: summarise disagreements of the last run of a property (work/<prop>.*)"""
import sys, re, collections, subprocess, os
prop=sys.argv[1]
W='/verif/work/'
cases=open(W+prop+'.cases.txt').read().split('\n')
impl=open(W+prop+'.impl.txt').read().split('\n')
# re-run the driver single process to get model output
mp=W+prop+'.model.full.txt'
subprocess.run(['/verif/lean/.lake/build/bin/owldrv',W+prop+'.cases.txt',W+prop+'.impl.txt',mp],check=True)
model=open(mp).read().split('\n')
bad=collections.Counter(); mism=collections.Counter(); ex={}
for i,c in enumerate(cases):
    if not c: continue
    m,_,s=model[i].partition('\t')
    op=c.split(' ')[0]
    t=c.split(' ')
    key=op
    if op in ('makelike',): key=op+' '+t[7]
    if op=='chain': key='chain'
    if s.startswith('bad'):
        bad[key]+=1; ex.setdefault(('bad',key),[]).append(i)
    im=re.sub(r' rt=[01]$','',impl[i]); mm=re.sub(r' rt=[01]$','',m)
    if m not in ('~','') and mm!=im:
        mism[key]+=1; ex.setdefault(('mism',key),[]).append(i)
print('bad',dict(bad)); print('mism',dict(mism))
n=int(sys.argv[2]) if len(sys.argv)>2 else 2
for k,v in ex.items():
    print('==',k,len(v))
    for i in v[:n]:
        m,_,s=model[i].partition('\t')
        print('  case  ',cases[i][:260]); print('  impl  ',impl[i][:260]); print('  model ',m[:260]); print('  oracle',s[:260])
