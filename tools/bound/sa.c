#include <stdio.h>
#include <stdlib.h>
#include <string.h>
#include <math.h>
// board[64]: 0 empty,1 K,2 Q,3 R,4 B,5 N,6 P (own, white moving toward rank index 7 -> row 7 promo), 7 enemy
static int bd[64];
static int inb(int f,int r){return f>=0&&f<8&&r>=0&&r<8;}
static int own(int c){return c>=1&&c<=6;}
int eval(void){
  int tot=0;
  static const int kd[8][2]={{1,0},{-1,0},{0,1},{0,-1},{1,1},{1,-1},{-1,1},{-1,-1}};
  static const int nd[8][2]={{1,2},{2,1},{-1,2},{-2,1},{1,-2},{2,-1},{-1,-2},{-2,-1}};
  for(int s=0;s<64;s++){int c=bd[s]; if(!own(c))continue; int f=s%8,r=s/8;
    if(c==1){for(int i=0;i<8;i++){int nf=f+kd[i][0],nr=r+kd[i][1]; if(inb(nf,nr)&&!own(bd[nr*8+nf]))tot++;}
      // castling
      if(s==4){ if(bd[7]==3&&bd[5]==0&&bd[6]==0)tot++; if(bd[0]==3&&bd[1]==0&&bd[2]==0&&bd[3]==0)tot++; }
    }
    else if(c==5){for(int i=0;i<8;i++){int nf=f+nd[i][0],nr=r+nd[i][1]; if(inb(nf,nr)&&!own(bd[nr*8+nf]))tot++;}}
    else if(c==6){ int m=(r==6)?4:1;
      if(bd[s+8]==0){tot+=m; if(r==1&&bd[s+16]==0)tot++;}
      if(f>0&&bd[s+7]==7)tot+=m; if(f<7&&bd[s+9]==7)tot+=m; }
    else { int lo=(c==4)?4:0, hi=(c==3)?4:8;
      for(int i=lo;i<hi;i++){int nf=f+kd[i][0],nr=r+kd[i][1];
        while(inb(nf,nr)){int t=bd[nr*8+nf]; if(own(t))break; tot++; if(t)break; nf+=kd[i][0]; nr+=kd[i][1];}}}
  }
  return tot;
}
int main(int argc,char**argv){
  int seed=argc>1?atoi(argv[1]):1; int maxE=argc>2?atoi(argv[2]):15; long iters=argc>3?atol(argv[3]):20000000;
  srand(seed);
  memset(bd,0,sizeof bd);
  // init: king + 15 queens random
  int cnt=0; while(cnt<16){int s=rand()%64; if(bd[s])continue; bd[s]=cnt==0?1:2; cnt++;}
  int cur=eval(),best=cur; int bb[64]; memcpy(bb,bd,sizeof bd);
  double T=3.0;
  for(long it=0;it<iters;it++){
    T=3.0*(1.0-(double)it/iters)+0.05;
    int sv[64]; memcpy(sv,bd,sizeof bd);
    int mv=rand()%4;
    int a=rand()%64,b=rand()%64;
    if(mv==0){int t=bd[a];bd[a]=bd[b];bd[b]=t;}
    else if(mv==1){ if(own(bd[a])&&bd[a]!=1){bd[a]=2+rand()%5;} }
    else if(mv==2){ if(bd[a]==0)bd[a]=7; else if(bd[a]==7)bd[a]=0; }
    else { if(own(bd[a])&&bd[a]!=1&&bd[b]==0){bd[b]=bd[a];bd[a]=0;} }
    // validity: pawns not on rank 0/7; enemy count
    int ok=1,ne=0,no=0; for(int s=0;s<64;s++){ if(bd[s]==6&&(s/8==0||s/8==7))ok=0; if(bd[s]==7)ne++; if(own(bd[s]))no++;}
    if(ne>maxE||no>16)ok=0;
    if(!ok){memcpy(bd,sv,sizeof bd);continue;}
    int e=eval();
    if(e>=cur||exp((e-cur)/T)>(double)rand()/RAND_MAX){cur=e; if(e>best){best=e;memcpy(bb,bd,sizeof bd);}}
    else memcpy(bd,sv,sizeof bd);
  }
  printf("best %d\n",best);
  const char*ch=".KQRBNPe";
  for(int r=7;r>=0;r--){for(int f=0;f<8;f++)putchar(ch[bb[r*8+f]]);putchar('\n');}
  return 0;
}
