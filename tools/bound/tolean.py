import json,sys
def term(t):
    if 'leaf' in t: return f"(.leaf {t['mu']} {hex(int(t['w']))})"
    return f"(.node {t['s']} {term(t['l'])} {term(t['r'])})"
if __name__=="__main__":
    col=sys.argv[1]; ks=[int(x) for x in sys.argv[2:]]
    for K in ks:
        t=json.load(open(f"tree_{col}_{K}.json"))
        print(f"def tree_{col}_{K} : Tree := {term(t)}")
