import numpy as np, itertools, sys
from scipy.optimize import linprog
from scipy.sparse import lil_matrix, csr_matrix
# lines
lines=[]
for r in range(8): lines.append([r*8+f for f in range(8)])
for f in range(8): lines.append([r*8+f for r in range(8)])
for d in range(-7,8):
    l=[r*8+(r-d) for r in range(8) if 0<=r-d<8]; lines.append(l)
for d in range(0,15):
    l=[r*8+(d-r) for r in range(8) if 0<=d-r<8]; lines.append(l)
def g(c):
    # c tuple of 0/1 ; moves along the line with all pieces queens
    L=len(c); k=sum(c)
    if k==0: return 0
    idx=[i for i in range(L) if c[i]]
    inside=sum(1 for i in range(idx[0],idx[-1]) if not c[i])
    return (L-k)+inside
N=int(sys.argv[1]) if len(sys.argv)>1 else 16
cols=[] # (line, config)
for li,l in enumerate(lines):
    for c in itertools.product([0,1],repeat=len(l)):
        cols.append((li,c))
nx=64; nl=len(cols)
nv=nx+nl
cobj=np.zeros(nv)
rows=[];cols_i=[];vals=[]; beq=[]
r=0
# convexity
start={}
for j,(li,c) in enumerate(cols):
    cobj[nx+j]=-g(c)
# sum lambda =1 per line
A=lil_matrix((len(lines)+sum(len(l) for l in lines), nv))
b=[]
row=0
for li,l in enumerate(lines):
    for j,(lj,c) in enumerate(cols):
        if lj==li: A[row,nx+j]=1
    b.append(1); row+=1
colsbyline={}
for j,(lj,c) in enumerate(cols): colsbyline.setdefault(lj,[]).append((j,c))
for li,l in enumerate(lines):
    for p,s in enumerate(l):
        for j,c in colsbyline[li]:
            if c[p]: A[row,nx+j]=1
        A[row,s]=-1
        b.append(0); row+=1
Aub=lil_matrix((1,nv)); Aub[0,:64]=1
res=linprog(cobj,A_ub=csr_matrix(Aub),b_ub=[N],A_eq=csr_matrix(A),b_eq=b,bounds=[(0,1)]*nv,method='highs')
print(N,res.status,-res.fun)
x=res.x[:64].reshape(8,8)
np.set_printoptions(precision=2,suppress=True)
print(x)
