import numpy as np, itertools, sys, time
from scipy.optimize import linprog
from scipy.sparse import lil_matrix, csr_matrix
lines=[]
for r in range(8): lines.append([r*8+f for f in range(8)])
for f in range(8): lines.append([r*8+f for r in range(8)])
for d in range(-7,8):
    l=[r*8+(r-d) for r in range(8) if 0<=r-d<8]; lines.append(l)
for d in range(0,15):
    l=[r*8+(d-r) for r in range(8) if 0<=d-r<8]; lines.append(l)
lines=[l for l in lines if len(l)>=2]
K=int(sys.argv[1]); NQ=int(sys.argv[2]); TARGET=float(sys.argv[3]) if len(sys.argv)>3 else 256.99
def g(c):
    # c: 0 empty, 1 queen, 2 blocker
    L=len(c); tot=0
    for i in range(L):
        if c[i]==1:
            j=i+1
            while j<L and c[j]==0: tot+=1; j+=1
            j=i-1
            while j>=0 and c[j]==0: tot+=1; j-=1
    return tot
cols=[]
for li,l in enumerate(lines):
    opts=[[2] if s==K else [0,1] for s in l]
    for c in itertools.product(*opts):
        cols.append((li,c))
nx=64; nv=nx+len(cols)
cobj=np.zeros(nv)
for j,(li,c) in enumerate(cols): cobj[nx+j]=-g(c)
# king moves: sum over adj (1-x_t)
kf,kr=K%8,K//8; const=0
for df in (-1,0,1):
    for dr in (-1,0,1):
        if (df,dr)!=(0,0) and 0<=kf+df<8 and 0<=kr+dr<8:
            const+=1; cobj[(kr+dr)*8+kf+df]+=1
if K in (3,4,59,60,24,32,31,39): const+=2
nrows=len(lines)+sum(len(l) for l in lines)
A=lil_matrix((nrows,nv)); b=[]
row=0
colsbyline={}
for j,(lj,c) in enumerate(cols): colsbyline.setdefault(lj,[]).append((j,c))
for li,l in enumerate(lines):
    for j,c in colsbyline[li]: A[row,nx+j]=1
    b.append(1); row+=1
for li,l in enumerate(lines):
    for p,s in enumerate(l):
        if s==K: 
            b.append(0); row+=1; continue
        for j,c in colsbyline[li]:
            if c[p]==1: A[row,nx+j]=1
        A[row,s]=-1
        b.append(0); row+=1
A=csr_matrix(A)
Aub=lil_matrix((1,nv)); Aub[0,:64]=1; Aub=csr_matrix(Aub)
def solve(lo,hi):
    bounds=[(lo[i],hi[i]) for i in range(64)]+[(0,None)]*(nv-64)
    res=linprog(cobj,A_ub=Aub,b_ub=[NQ],A_eq=A,b_eq=b,bounds=bounds,method='highs')
    if res.status!=0: return None,None
    return -res.fun+const,res.x[:64]
lo=[0]*64; hi=[1]*64; hi[K]=0
t0=time.time()
v,x=solve(lo,hi); print("root",v,flush=True)
nodes=0; best=0
stack=[(lo,hi)]
maxnodes=int(sys.argv[4]) if len(sys.argv)>4 else 300
while stack and nodes<maxnodes:
    lo,hi=stack.pop(); nodes+=1
    v,x=solve(lo,hi)
    if v is None or v<=TARGET: continue
    frac=[(abs(x[i]-0.5),i) for i in range(64) if 1e-6<x[i]<1-1e-6]
    if not frac:
        print("integral solution",v,flush=True); best=max(best,v); continue
    i=min(frac)[1]
    l1=lo[:];h1=hi[:];h1[i]=0
    l2=lo[:];h2=hi[:];l2[i]=1
    stack.append((l1,h1)); stack.append((l2,h2))
    if nodes%20==0: print(nodes,len(stack),v,time.time()-t0,flush=True)
print("done nodes",nodes,"open",len(stack),"time",time.time()-t0)
