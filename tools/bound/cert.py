import numpy as np, itertools, sys, time, json
from scipy.optimize import linprog
from scipy.sparse import coo_matrix
D=1000
# squares s=r*8+f, r=0 is rank 8. "white" moves toward r=0.
LINES=[]
for r in range(8): LINES.append((0,[r*8+f for f in range(8)]))
for f in range(8): LINES.append((0,[r*8+f for r in range(8)]))
for d in range(-7,8):
    l=[r*8+(r-d) for r in range(8) if 0<=r-d<8]; LINES.append((1,l))
for d in range(0,15):
    l=[r*8+(d-r) for r in range(8) if 0<=d-r<8]; LINES.append((1,l))
LINES=[l for l in LINES if len(l[1])>=2]
TY=['K','Q','R','B','N','P']
def sym(kind,t):
    if t=='Q': return 1
    if t=='R': return 1 if kind==0 else 2
    if t=='B': return 1 if kind==1 else 2
    return 2
def G(c):
    ls=False; m=0; tot=0
    for x in c:
        if x==0:
            if ls: tot+=1
            m+=1
        elif x==1:
            tot+=m; ls=True; m=0
        else:
            ls=False; m=0
    return tot
def nK(s):
    f,r=s%8,s//8; return sum(1 for a,b in [(1,2),(2,1),(-1,2),(-2,1),(1,-2),(2,-1),(-1,-2),(-2,-1)] if 0<=f+a<8 and 0<=r+b<8)
def kM(s,white=True):
    f,r=s%8,s//8; n=sum(1 for a in(-1,0,1) for b in (-1,0,1) if (a,b)!=(0,0) and 0<=f+a<8 and 0<=r+b<8)
    return n+(2 if s==(60 if white else 4) else 0)
def pM(s,white=True):
    f,r=s%8,s//8
    if r==0 or r==7: return None
    if not white: r=7-r
    nd=(1 if f>0 else 0)+(1 if f<7 else 0)
    if r==1: return 4*(1+nd)
    if r==6: return 2+nd
    return 1+nd
def local(t,s,white=True):
    if t=='N': return nK(s)
    if t=='K': return kM(s,white)
    if t=='P': return pM(s,white)
    return 0

class Model:
    def __init__(self,K,white=True,nmen=16):
        self.K=K; self.white=white
        nx=64*5; self.nx=nx
        cols=[]
        for li,(kind,l) in enumerate(LINES):
            opts=[[2] if s==K else [0,1,2] for s in l]
            for c in itertools.product(*opts): cols.append((li,c))
        self.cols=cols
        nv=nx+len(cols); self.nv=nv
        cobj=np.zeros(nv)
        for j,(li,c) in enumerate(cols): cobj[nx+j]=-G(c)
        hi0=np.ones(nx)
        for s in range(64):
            cobj[s*5+3]=-nK(s)
            p=pM(s,white)
            if p is None: hi0[s*5+4]=0
            else: cobj[s*5+4]=-p
            if s==K: hi0[s*5:s*5+5]=0
        self.cobj=cobj; self.hi0=hi0; self.const=kM(K,white)
        rI=[];cI=[];vv=[];b=[]; row=0
        colsbyline={}
        for j,(lj,c) in enumerate(cols): colsbyline.setdefault(lj,[]).append((j,c))
        self.convrow={}; self.margrow={}
        for li,(kind,l) in enumerate(LINES):
            for j,c in colsbyline[li]: rI.append(row);cI.append(nx+j);vv.append(1)
            self.convrow[li]=row; b.append(1); row+=1
        for li,(kind,l) in enumerate(LINES):
            for p,s in enumerate(l):
                if s==K: continue
                for sy in (1,2):
                    for j,c in colsbyline[li]:
                        if c[p]==sy: rI.append(row);cI.append(nx+j);vv.append(1)
                    for ti in range(1,6):
                        if sym(kind,TY[ti])==sy: rI.append(row);cI.append(s*5+ti-1);vv.append(-1)
                    self.margrow[(li,p,sy)]=row; b.append(0); row+=1
        self.A=coo_matrix((vv,(rI,cI)),shape=(row,nv)).tocsr(); self.b=b
        rI=[];cI=[];vv=[];bu=[]
        for i in range(nx): rI.append(0);cI.append(i);vv.append(1)
        bu.append(nmen-1)
        for s in range(64):
            for t in range(5): rI.append(1+s);cI.append(s*5+t);vv.append(1)
            bu.append(1)
        self.Aub=coo_matrix((vv,(rI,cI)),shape=(65,nv)).tocsr(); self.bu=bu
    def solve(self,lo,hi):
        bounds=[(lo[i],hi[i]) for i in range(self.nx)]+[(0,None)]*(self.nv-self.nx)
        res=linprog(self.cobj,A_ub=self.Aub,b_ub=self.bu,A_eq=self.A,b_eq=self.b,bounds=bounds,method='highs')
        if res.status!=0: return None,None,None
        return -res.fun+self.const,res.x[:self.nx],res
    def weights(self,res):
        y=res.eqlin.marginals
        w={}
        for (li,p,sy),row in self.margrow.items(): w[(li,p,sy)]=int(round(-y[row]*D))
        mu=int(round(-res.ineqlin.marginals[0]*D))
        return w,mu

def allowed_types(K,s,fixedQ,notQ,white=True):
    if s==K: return ['K']
    if s in fixedQ: return ['Q']
    a=['E','Q','R','B','N']
    if pM(s,white) is not None: a.append('P')
    if s in notQ: a.remove('Q')
    return a
def exact_bound(K,fixedQ,notQ,w,mu,white=True,nmen=16):
    """integer check mirroring the Lean checker. returns B (scaled by D)"""
    V={}  # (s,t) -> int
    for s in range(64):
        for t in allowed_types(K,s,fixedQ,notQ,white):
            V[(s,t)]=0 if t=='E' else D*local(t,s,white)
    tot_u=0
    for li,(kind,l) in enumerate(LINES):
        # allowed symbols per position
        allow=[]
        for s in l:
            ts=allowed_types(K,s,fixedQ,notQ,white)
            allow.append(sorted(set(0 if t=='E' else sym(kind,t) for t in ts)))
        # DP: T[ls][m]
        L=len(l)
        T=[[0]*(L+2) for _ in range(2)]
        for p in range(L-1,-1,-1):
            N=[[None]*(L+2) for _ in range(2)]
            for ls in (0,1):
                for m in range(0,L+1):
                    best=None
                    for sy in allow[p]:
                        if sy==0: v=(D if ls else 0)+T[ls][m+1]
                        elif sy==1: v=D*m-w.get((li,p,1),0)+T[1][0]
                        else: v=-w.get((li,p,2),0)+T[0][0]
                        if best is None or v>best: best=v
                    N[ls][m]=best
            for ls in (0,1):
                for m in range(0,L+1): T[ls][m]=N[ls][m]
                T[ls][L+1]=0
        u=T[0][0]
        tot_u+=u
        for p,s in enumerate(l):
            for t in allowed_types(K,s,fixedQ,notQ,white):
                if t!='E': V[(s,t)]+=w.get((li,p,sym(kind,t)),0)
    B=tot_u+nmen*mu
    for s in range(64):
        B+=max(V[(s,t)]-(0 if t=='E' else mu) for t in allowed_types(K,s,fixedQ,notQ,white))
    return B

def bnb(K,white=True,target=256.9,maxnodes=500,log=True):
    M=Model(K,white)
    lo0=np.zeros(M.nx)
    stack=[(M.hi0.copy(),lo0,frozenset(),frozenset())]
    leaves=[]; nodes=0
    while stack and nodes<maxnodes:
        hi,lo,fq,nq=stack.pop(); nodes+=1
        v,x,res=M.solve(lo,hi)
        if v is None:
            # infeasible: too many fixed queens? treat as leaf needing trivial cert; shouldn't happen
            print("INFEASIBLE node",K,sorted(fq)); leaves.append((sorted(fq),sorted(nq),None,None,None)); continue
        ok=False
        if v<=target:
            w,mu=M.weights(res)
            bestB=None
            for dm in range(-3,4):
                Bx=exact_bound(K,fq,nq,w,mu+dm,white)
                if bestB is None or Bx<bestB[0]: bestB=(Bx,mu+dm)
            if bestB[0]<257*D:
                ok=True; leaves.append((sorted(fq),sorted(nq),{f"{a},{b},{c}":val for (a,b,c),val in w.items() if val!=0},bestB[1],bestB[0]))
            elif log: print("  rounding fail",v,bestB[0]/D)
        if ok: continue
        xs=x.reshape(64,5)
        cand=[(abs(xs[s,0]-0.5),s) for s in range(64) if 1e-6<xs[s,0]<1-1e-6]
        if not cand:
            print("Q-integral but above target",K,v); return None
        s=min(cand)[1]
        h1=hi.copy(); h1[s*5]=0
        l2=lo.copy(); l2[s*5]=1; h2=hi.copy(); h2[s*5+1:s*5+5]=0
        stack.append((h1,lo,fq,nq|{s})); stack.append((h2,l2,fq|{s},nq))
    if stack: print("OPEN",K,len(stack)); return None
    if log: print("K",K,"nodes",nodes,"leaves",len(leaves),"maxB",max(l[4] for l in leaves)/D,flush=True)
    return leaves
if __name__=="__main__":
    K=int(sys.argv[1]); white=(sys.argv[2]=='w')
    t0=time.time()
    lv=bnb(K,white)
    json.dump(lv,open(f"leaves_{sys.argv[2]}_{K}.json","w"))
    print("time",time.time()-t0)
