import sys, json, time
from cert import *
def line_axis(li):
    # LINES order: 8 ranks (axis0), 8 files (axis1), diags (r-f=d) axis2, antis axis3 ; but filtered len>=2
    kind,l=LINES[li]
    if kind==0:
        return 0 if l[1]-l[0]==1 else 1
    return 2 if (l[1]-l[0])==9 else 3
def pack(w):
    N=0
    fields=[32768]*(64*8)
    for key,val in w.items():
        li,p,sy=map(int,key.split(','))
        s=LINES[li][1][p]; ax=line_axis(li); o=0 if sy==1 else 1
        assert -32768<=val<32768
        fields[s*8+ax*2+o]=val+32768
    for i,f in enumerate(fields): N|=f<<(16*i)
    return N
def bnb_tree(K,white=True,target=256.9):
    M=Model(K,white)
    stats={'nodes':0,'leaves':0,'maxB':0}
    def rec(hi,lo,fq,nq,depth):
        stats['nodes']+=1
        v,x,res=M.solve(lo,hi)
        if v is None:
            raise Exception("infeasible")
        if v<=target:
            w,mu=M.weights(res)
            best=None
            for dm in range(-3,4):
                if mu+dm<0: continue
                Bx=exact_bound(K,fq,nq,w,mu+dm,white)
                if best is None or Bx<best[0]: best=(Bx,mu+dm)
            if best[0]<257*D:
                stats['leaves']+=1; stats['maxB']=max(stats['maxB'],best[0])
                wd={f"{a},{b},{c}":val for (a,b,c),val in w.items() if val!=0}
                return {'leaf':1,'mu':best[1],'w':str(pack(wd)),'B':best[0]}
        xs=x.reshape(64,5)
        cand=[(abs(xs[s,0]-0.5),s) for s in range(64) if 1e-6<xs[s,0]<1-1e-6]
        if not cand: raise Exception("Q-integral above target %d %f"%(K,v))
        s=min(cand)[1]
        h1=hi.copy(); h1[s*5]=0
        l2=lo.copy(); l2[s*5]=1; h2=hi.copy(); h2[s*5+1:s*5+5]=0
        L=rec(h1,lo,fq,nq|{s},depth+1)
        R=rec(h2,l2,fq|{s},nq,depth+1)
        return {'s':int(s),'l':L,'r':R}
    t=rec(M.hi0.copy(),np.zeros(M.nx),frozenset(),frozenset(),0)
    return t,stats
if __name__=="__main__":
    K=int(sys.argv[1]); col=sys.argv[2]
    t0=time.time()
    t,st=bnb_tree(K,col=='w')
    json.dump(t,open(f"tree_{col}_{K}.json","w"))
    print(K,col,st,round(time.time()-t0,1))
