import json
def term(t):
    if 'leaf' in t: return f"(.leaf {t['mu']} {hex(int(t['w']))})"
    return f"(.node {t['s']} {term(t['l'])} {term(t['r'])})"
out=[]
hdr=open('/tmp/t/hdr.txt').read()
out.append(hdr)
out.append(open('/tmp/c19work/intro.txt').read())
for p in ['p1','p2','p3','p4','p5','p6']:
    out.append(open(f'/tmp/t/{p}.txt').read())
out.append('''/-! ## 7. the certificates

For each colour and each square of the king a tree: inner nodes split on "a queen of the side to move stands on `s`"
(right branch) or not (left branch); every leaf carries a multiplier and the packed weights. The data were produced
outside Lean by a linear-programming solver; nothing about that search is trusted — `checkTree` recomputes every bound
with integer arithmetic and the kernel evaluates it (`decide +kernel`). -/

set_option maxRecDepth 100000

''')
for col,cname in (('w','.white'),('b','.black')):
    for K in range(64):
        t=json.load(open(f'/tmp/c19work/tree_{col}_{K}.json'))
        out.append(f"def tree_{col}_{K} : Tree := {term(t)}\n")
        out.append(f"theorem ok_{col}_{K} : checkTree {cname} ⟨{K}, by decide⟩ [] [] tree_{col}_{K} = true := by decide +kernel\n")
    out.append(f"\ndef tree{col.upper()} : Nat → Tree\n")
    for K in range(63): out.append(f"  | {K} => tree_{col}_{K}\n")
    out.append(f"  | _ => tree_{col}_63\n")
    out.append(f"\ntheorem ok{col.upper()} : ∀ (n : Nat) (h : n < 64), checkTree {cname} ⟨n, h⟩ [] [] (tree{col.upper()} n) = true := by\n  intro n h\n  match n, h with\n")
    for K in range(64): out.append(f"  | {K}, _ => exact ok_{col}_{K}\n")
    out.append("  | n + 64, h => omega\n\n")
out.append(open('/tmp/c19work/final.txt').read())
open('/tmp/proofs/c19/C19bound.lean','w').write(''.join(out))
