import OwlModel.Props.C06
open Owl
def parseRow (s : String) : List (Option Spec.Man) :=
  s.toList.map fun ch => match ch with
    | 'K' => some ⟨.white, .king⟩ | 'Q' => some ⟨.white, .queen⟩ | 'R' => some ⟨.white, .rook⟩
    | 'B' => some ⟨.white, .bishop⟩ | 'N' => some ⟨.white, .knight⟩ | 'P' => some ⟨.white, .pawn⟩
    | 'k' => some ⟨.black, .king⟩ | 'e' => some ⟨.black, .knight⟩ | _ => none
def mkPos (rows : List String) : Spec.Pos :=
  let cells := (rows.map parseRow).flatten
  { board := Tab.ofFn fun s => cells.getD s.val none, side := .white, rights := Spec.RightsSet.none, ep := none, half := 0, full := 1 }
def p242 := mkPos ["keK.QQ.e","BeQ....Q","Q....Q..","...Q....",".Q....Q.","....Q...","..Q....Q","Q....Q.e"]
#eval (Spec.pseudoMoves p242).length
#eval Spec.ValidRaw p242
#eval (Spec.legalMoves p242).length
def p242b := mkPos ["Q....Qek","...Q..ee",".Q....QK","....Q...","Q.Q....Q","Q....Q.Q","...Q....",".Q....Qe"]
#eval (Spec.pseudoMoves p242b).length
#eval Spec.ValidRaw p242b
def p248 := mkPos ["K.Q....Q","Q....Q..","...Q....",".Q....Q.","....Q...","..Q....Q","Q....Q..","e.QQ..Q."]
#eval (Spec.pseudoMoves p248).length
#eval Spec.ValidRaw p248
